package main

// rules_reap.go — C01 (removal guard), C09 (cordoned), C10 (no-delete annotation), C11 (dry mode).

import (
	"fmt"
	"go/token"
	"go/types"
	"strings"

	"golang.org/x/tools/go/ssa"
	"golang.org/x/tools/go/ssa/ssautil"
)

func init() {
	register(&propSpec{ID: "C11", Run: checkC11,
		Explanation: "All paths: every external write (Node update/delete, ASG set/attach/terminate, fleet create/terminate) reachable from RunOnce is reached only through a censused action site (call-graph cut), and every action site / reaper append executes under a path condition that implies ¬(c.Opts.DryMode ∨ g.Opts.DryMode) for the group being scanned (truth table over the inlined dry-mode predicate). The predicate's fields have no store in scan-reachable code; DecreaseTargetSize is unreachable; dry-mode trackers are per group.",
		RuleText:    "obligation = rule id + construct (function/callee#ordinal); R1 guard implications at 3 action sites + 2 reaper appends, R2 layering over all W sites + deletion flow, R3 predicate body and store census, R4 unreachable decrease, R5 tracker stores; floors: W>=10, guarded sites>=5",
		Assumptions: []string{"registration-time ASG tagging (addASGTags → CreateOrUpdateTags) is not one of the statement's write classes and is exempt by name"}})
	register(&propSpec{ID: "C01", Run: checkC01,
		Explanation: "Safety on all paths: instance termination and Node deletion are issued only by the delete step, which receives exactly the nodes the two reapers appended; the grace reaper's append is guarded by taint-time-readable ∧ ((age > soft ∧ empty) ∨ age > hard) with age built from that node's own stored taint time and strict comparisons, the force reaper's by emptiness; the lists the reapers range over are the classifier's tainted / force-tainted lists, whose appends require ¬cordoned ∧ taint present (outside dry mode); emptiness counts every non-daemonset pod of the group's pod list filed under the node's name; the reapers read no remembered state besides Opts and the NodeInfoMap rebuilt earlier in the same scan.",
		RuleText:    "obligation = rule id + construct; R1/R2 deletion flow + element provenance, R3 grace guard implication, R4 force guard, R5 classification guards + scaleOpts binding, R6 emptiness shape, R7 restart invariance, R8 listed Node / Pod objects and lists are never written (the taint and its time are read from the cluster's state, not from a locally modified copy), R9 the listers hand out exactly what the group filter accepts, R10 the taint time is read back in the representation it was written in, R11 the informers list every pod that can still run and every node, R12 no client before both caches synced, R13 the group filters are the documented predicates",
		Assumptions: []string{"the informer cache is the cluster view of the scan", "strconv/time semantics; the value of the clock", "soft < hard is C16's concern"}})
	register(&propSpec{ID: "C09", Run: checkC09,
		Explanation: "Outside dry mode no action site can receive a node that was cordoned in this scan's snapshot: the classifier appends to untainted/tainted/force-tainted only under ¬Unschedulable; the node arguments of taint / untaint / delete have provenance in those lists only (interprocedural parameter binding up to the scan body); capacity, percent node count and delta node list are taken from the untainted list; the cordoned list flows only to len/logging/metrics.",
		RuleText:    "R1 classification guards (3 appends), R2 action targets' provenance, R3 counting arguments' provenance, R4 uses of the cordoned list",
		Assumptions: []string{"a node cordoned after the list was taken is outside the statement (pre-scan snapshot)"}})
	register(&propSpec{ID: "C10", Run: checkC10,
		Explanation: "The grace reaper's append implies ¬protected(n) where protected is the existential search for key atlassian.com/no-delete with a non-empty value; the protected edge continues the loop (no break/return), the loop's only exit is exhaustion, and safeFromDeletion has no caller besides the grace reaper, so the annotation affects neither tainting nor counting.",
		RuleText:    "R1 guard implication, R2 predicate shape, R3 continue-not-break, R4 callers / readers of the annotation key, R5 deletion flow, R6 listed objects reach the guard as the API server sent them (no transform, no writes), R7 the force list holds only force-tainted nodes, R8 taint writes change nothing but Spec.Taints of the freshly fetched node, so the annotation survives tainting (C15.R1 / R2 / R7)",
		Assumptions: []string{"the force-removal path is outside the statement (\"and no force-removal taint\")"}})
}

// ---------------------------------------------------------------------------------------------
// C11

func checkC11(ck *Check) {
	a := ck.A
	if !ck.need("C11.R1", map[string]interface{}{"scan": a.Scan, "RunOnce": a.RunOnce, "taint loop": a.TaintLoop, "untaint loop": a.UntaintLoop, "cloud step": a.CloudStep}) {
		return
	}
	// R1: guards at action sites
	guarded := 0
	examined := 0
	for _, s := range a.A {
		switch s.Class {
		case "A-TAINT", "A-UNTAINT", "A-CLOUD-INC":
		default:
			continue
		}
		examined++
		req, err := ck.notDry(s.Fn)
		key := ck.P.siteKey(s.Call)
		if err != nil {
			ck.undecided("C11.R1", key, ck.P.instrPos(s.Call), funcID(s.Fn), "¬dry(g)", err.Error())
			continue
		}
		ctx := ck.P.NewCtx(s.Fn)
		if imp, _, _ := Entails(ctx.PC(s.Call), req); !imp {
			// the guard may be taken by the caller and handed in as a flag (dry mode evaluated once,
			// before a loop): decided at every call site with the arguments bound
			if ck.dryGuardAtCallers(s) {
				ck.ok("C11.R1", key, ck.P.instrPos(s.Call), funcID(s.Fn), "PC ⇒ ¬(c.Opts.DryMode ∨ g.Opts.DryMode) at "+s.Class, "at every call site of "+funcID(s.Fn)+", with its arguments bound")
				guarded++
				continue
			}
		}
		if ck.entails("C11.R1", key, s.Call, ctx.PC(s.Call), req, "PC ⇒ ¬(c.Opts.DryMode ∨ g.Opts.DryMode) at "+s.Class) {
			guarded++
		}
	}
	aps := ck.deletionFlow("C11.R2")
	for _, ra := range aps {
		examined++
		req, err := ck.notDry(ra.Reaper)
		if err != nil {
			ck.undecided("C11.R1", ra.Key, ck.P.instrPos(ra.Site.Call), funcID(ra.Reaper), "¬dry(g)", err.Error())
			continue
		}
		if ck.entails("C11.R1", ra.Key, ra.Site.Call, ra.PC(), req, "PC ⇒ ¬(c.Opts.DryMode ∨ g.Opts.DryMode) at the append feeding the delete step") {
			guarded++
		}
	}
	_ = guarded
	ck.floor("C11.R1", "sites examined for the dry-mode guard (action calls + reaper appends)", examined, 3)

	// R2: layering
	ck.layeringL0("C11.R2", nil)
	ck.floor("C11.R2", "external write sites", len(a.W), 5)

	// R3: the predicate and its fields
	ck.dryPredicate("C11.R3")

	// R4: DecreaseTargetSize unreachable from RunOnce
	reach := ck.P.reachCut([]*ssa.Function{a.RunOnce}, nil)
	dec := 0
	for _, s := range a.A {
		if s.Class == "A-CLOUD-DEC" && reach[s.Fn] {
			dec++
			ck.fail("C11.R4", ck.P.siteKey(s.Call), ck.P.instrPos(s.Call), funcID(s.Fn), "no DecreaseTargetSize call is reachable from RunOnce", "reachable", "an unguarded cloud resize (decrease) is reachable from the scan")
		}
	}
	if a.AwsDecrease != nil && reach[a.AwsDecrease] {
		dec++
		ck.fail("C11.R4", "aws.DecreaseTargetSize", "", funcID(a.AwsDecrease), "(*aws.NodeGroup).DecreaseTargetSize unreachable from RunOnce", "reachable: "+strings.Join(ck.P.chain(a.RunOnce, a.AwsDecrease), " → "), "")
	}
	if dec == 0 {
		ck.ok("C11.R4", "decrease-unreachable", "", "", "no DecreaseTargetSize call is reachable from RunOnce", "unreachable")
	}

	// R5: dry-mode trackers are addressed through the scan's own group
	ck.trackerStores("C11.R5")
}

// dryPredicate: dryMode(c,g) ≡ c.Opts.DryMode ∨ g.Opts.DryMode; neither field is stored in
// scan-reachable code.
func (ck *Check) dryPredicate(rule string) {
	a := ck.A
	if a.DryMode == nil {
		// no separate predicate function: R1 already checks the guards against the two fields directly
		ck.info("%s: no dry-mode predicate method found; the guards of R1 are decided on the fields themselves", rule)
	} else if ctx := ck.P.NewCtx(a.DryMode); true {
		got := ctx.returnFormula(0)
		gl, gr, err := ck.dryAtoms(a.DryMode)
		if err != nil {
			ck.undecided(rule, "dryMode/body", "", funcID(a.DryMode), "dryMode ≡ c.Opts.DryMode ∨ g.Opts.DryMode", err.Error())
		} else {
			want := Or(Atom(gl), Atom(gr))
			okv, why, e2 := Equivalent(got, want)
			if e2 != nil {
				ck.undecided(rule, "dryMode/body", "", funcID(a.DryMode), want.String(), e2.Error())
			} else {
				ck.cond(okv, rule, "dryMode/body", ck.P.position(a.DryMode.Pos()), funcID(a.DryMode), "dryMode(c,g) ⇔ "+want.String(), got.String(), "the dry-mode predicate is not the disjunction of the global flag and the group option: "+why)
			}
		}
	}
	fGlobal := field(a.TOpts, "DryMode")
	fGroup := fieldByJSON(a.TOptions, "dry_mode")
	reach := ck.P.reachCut([]*ssa.Function{a.RunOnce}, nil)
	n := 0
	for fn := range reach {
		for _, b := range fn.Blocks {
			for _, in := range b.Instrs {
				st, ok := in.(*ssa.Store)
				if !ok {
					continue
				}
				f := fieldOfAddr(st.Addr)
				if f != nil && (f == fGlobal || f == fGroup) {
					if _, isAlloc := baseOfAddr(st.Addr).(*ssa.Alloc); isAlloc {
						continue
					}
					n++
					ck.fail(rule, "store:"+funcID(fn)+"/"+f.Name(), ck.P.instrPos(in), funcID(fn), "the dry-mode switches are not written during a scan", "store to "+f.Name(), "dry mode can be switched off while scanning")
				}
			}
		}
	}
	if n == 0 {
		ck.ok(rule, "dryMode/field-stores", "", "", "no store to Opts.DryMode / NodeGroupOptions.DryMode in code reachable from RunOnce", fmt.Sprintf("0 stores in %d reachable functions", len(reach)))
	}
	// wiring: main binds Opts.DryMode to the --drymode flag, NewController keeps the options it was given
	if sp := ck.P.SSAPkg[pkgCmd]; sp != nil && sp.Func("main") != nil {
		mainFn := sp.Func("main")
		mctx := ck.P.NewCtx(mainFn)
		okv := false
		var got string
		for _, b := range mainFn.Blocks {
			for _, in := range b.Instrs {
				if st, ok := in.(*ssa.Store); ok && fieldOfAddr(st.Addr) == fGlobal {
					t := mctx.Term(st.Val)
					got = t.String()
					// *drymode where drymode is the package variable holding the kingpin flag
					if t.Kind == "deref" && t.Args[0].Kind == "global" && strings.HasSuffix(t.Args[0].Name, ".drymode") {
						okv = true
					}
				}
			}
		}
		ck.cond(okv, rule, "main/drymode-flag", "", "cmd.main", "controller.Opts.DryMode is bound to the --drymode flag", got, "the master dry-mode switch is not honoured")
		// the flag variable is the one registered under the name drymode
		init := sp.Func("init")
		okFlag := false
		for _, b := range init.Blocks {
			for _, in := range b.Instrs {
				if c, ok := in.(*ssa.Call); ok && c.Common().StaticCallee() != nil && c.Common().StaticCallee().Name() == "Flag" && len(c.Common().Args) >= 1 {
					if k, ok := c.Common().Args[0].(*ssa.Const); ok && k.Value != nil && k.Value.String() == `"drymode"` {
						okFlag = true
					}
				}
			}
		}
		ck.cond(okFlag, rule, "main/drymode-flag-registered", "", "cmd.init", "a flag named drymode is registered", "", "")
	}
	{
		fn := a.NewController
		ctx := ck.P.NewCtx(fn)
		fOpts := field(a.TController, "Opts")
		okv := false
		var got string
		for _, b := range fn.Blocks {
			for _, in := range b.Instrs {
				if st, ok := in.(*ssa.Store); ok && fieldOfAddr(st.Addr) == fOpts {
					t := ctx.Term(st.Val)
					got = t.String()
					if ck.isParamStruct(t) || t.Kind == "param" {
						okv = true
					}
					if t.Kind == "struct" {
						// the DryMode component must be the parameter's
						stT, _ := t.Typ.Underlying().(*types.Struct)
						for i := 0; stT != nil && i < stT.NumFields(); i++ {
							if stT.Field(i) == fGlobal && t.Args[i].Kind == "field" && t.Args[i].Args[0].Kind == "param" {
								okv = true
							}
						}
					}
				}
			}
		}
		ck.cond(okv, rule, "NewController/opts", "", funcID(fn), "the controller keeps the options (incl. DryMode) it was constructed with", got, "")
	}
}

// trackerStores: every store to NodeGroupState.taintTracker / forceTaintTracker in scan-reachable
// code addresses the function's own group-role term.
func (ck *Check) trackerStores(rule string) {
	a := ck.A
	reach := ck.P.reachCut([]*ssa.Function{a.Scan}, nil)
	n := 0
	for _, fn := range ck.P.Funcs {
		if !reach[fn] {
			continue
		}
		for _, b := range fn.Blocks {
			for _, in := range b.Instrs {
				st, ok := in.(*ssa.Store)
				if !ok {
					continue
				}
				f := fieldOfAddr(st.Addr)
				if f == nil || (f != field(a.TState, "taintTracker") && f != field(a.TState, "forceTaintTracker")) {
					continue
				}
				n++
				ctx := ck.P.NewCtx(fn)
				base := ctx.Term(st.Addr.(*ssa.FieldAddr).X)
				g := ck.groupTerm(fn)
				okv := g != nil && base.Key() == g.Key()
				ck.cond(okv, rule, fmt.Sprintf("%s/store:%s", funcID(fn), f.Name()), ck.P.instrPos(in), funcID(fn), "dry-mode tracker stores go through the scan's own group", base.String(), "a dry-mode stand-in of another group is modified")
			}
		}
	}
	ck.Stats[rule+" tracker stores"] = n
}

// ---------------------------------------------------------------------------------------------
// C01

// graceAtoms locates, in the atoms of pc, the pieces of the grace guard for node term n.
type graceParts struct {
	errNil, timeNil *Term // nil == GetTime(n).#1 ; nil == GetTime(n).#0
	soft, hard      *Term // soft(g) < age(n) ; hard(g) < age(n)
	problems        []string
}

func (ck *Check) isTimeOf(t *Term, n *Term) bool {
	return isCallTo(t, ck.A.GetTime) && len(t.Args) == 1 && t.Args[0].Key() == n.Key()
}

// isAge: Sub(now, *GetTime(n).#0) with now a clock read.
func (ck *Check) isAge(t *Term, n *Term) bool {
	if t == nil || t.Kind != "call" || len(t.Args) != 2 || !strings.HasSuffix(t.Name, "(time.Time).Sub") {
		return false
	}
	now, then := t.Args[0], t.Args[1]
	if now.Kind != "call" || !(strings.HasSuffix(now.Name, "clock.Now") || strings.HasSuffix(now.Name, "time.Now")) {
		return false
	}
	return then.Kind == "deref" && isExtractOf(then.Args[0], 0, func(x *Term) bool { return ck.isTimeOf(x, n) })
}

func (ck *Check) isDurationOf(t *Term, g *Term, method string) bool {
	if t == nil || t.Kind != "call" || t.Fn == nil || t.Fn.Name() != method || len(t.Args) != 1 {
		return false
	}
	if t.Fn.Signature.Recv() == nil || !ck.A.isPtrTo(t.Fn.Signature.Recv().Type(), ck.A.TOptions) {
		return false
	}
	recv := t.Args[0]
	if recv.Kind == "unop" && recv.Name == "&" {
		recv = recv.Args[0]
	}
	opts := field(ck.A.TState, "Opts")
	return recv.Kind == "field" && recv.Obj == opts && recv.Args[0].Key() == g.Key()
}

func (ck *Check) graceParts(pc *Formula, n, g *Term) graceParts {
	var gp graceParts
	for _, at := range pc.Atoms() {
		if at.Kind != "cmp" {
			continue
		}
		x, y := at.Args[0], at.Args[1]
		switch at.Name {
		case "==":
			for _, pr := range [][2]*Term{{x, y}, {y, x}} {
				if pr[0].Kind == "const" && pr[0].Name == "nil" {
					if isExtractOf(pr[1], 1, func(t *Term) bool { return ck.isTimeOf(t, n) }) {
						gp.errNil = at
					}
					if isExtractOf(pr[1], 0, func(t *Term) bool { return ck.isTimeOf(t, n) }) {
						gp.timeNil = at
					}
				}
			}
		case "<":
			if ck.isAge(y, n) {
				if ck.isDurationOf(x, g, "SoftDeleteGracePeriodDuration") {
					if gp.soft != nil && gp.soft.Key() != at.Key() {
						gp.problems = append(gp.problems, "several soft-grace comparisons")
					}
					gp.soft = at
				}
				if ck.isDurationOf(x, g, "HardDeleteGracePeriodDuration") {
					if gp.hard != nil && gp.hard.Key() != at.Key() {
						gp.problems = append(gp.problems, "several hard-grace comparisons")
					}
					gp.hard = at
				}
			}
		}
	}
	return gp
}

// emptyFormula: the propositional reading of NodeEmpty(n, g.NodeInfoMap) in ctx's vocabulary.
func (ck *Check) emptyFormula(ctx *Ctx, at ssa.Instruction, n, g *Term) *Formula {
	nim := field(ck.A.TState, "NodeInfoMap")
	m := mkField(g, nim)
	if ctx.unstable(nim, g) {
		// NodeInfoMap is (re)written by the scan; inside the reapers it is stable (no store in their closure)
	}
	ch := ctx.child(ck.A.NodeEmpty, at, []*Term{n, m})
	if ch.inlinable(ck.A.NodeEmpty) || !infoOf(ck.A.NodeEmpty).hasLoop {
		return ch.returnFormula(0)
	}
	return Atom(&Term{Kind: "call", Name: funcID(ck.A.NodeEmpty), Fn: ck.A.NodeEmpty, Args: []*Term{n, m}})
}

func checkC01(ck *Check) {
	a := ck.A
	if !ck.need("C01.R1", map[string]interface{}{"scan": a.Scan, "classifier": a.Filter, "time reader": a.GetTime, "NodeEmpty": a.NodeEmpty, "NodePodsRemaining": a.PodsRemaining}) {
		return
	}
	// R1: layering for the two deletion classes; R2: flow
	ck.layeringL0("C01.R1", map[string]bool{"W-ASG-TERM": true, "W-K8S-DEL": true, "W-OTHER": true})
	aps := ck.deletionFlow("C01.R2")
	nGrace, nForce := 0, 0
	for _, ra := range aps {
		g := ck.groupTerm(ra.Reaper)
		pos, fn := ck.P.instrPos(ra.Site.Call), funcID(ra.Reaper)
		if g == nil {
			ck.undecided("C01.R2", ra.Key, pos, fn, "reaper has a node-group role", "no unique node-group parameter")
			continue
		}
		listName := "taintedNodes"
		if ra.Force {
			listName = "forceTaintedNodes"
		}
		okv := isElemOf(ra.Elem, func(t *Term) bool { return ck.isScaleOptsField(t, listName) })
		ck.cond(okv, "C01.R2", ra.Key+"/elem", pos, fn, "the appended node is the loop element of opts."+listName, ra.Elem.String(), "a node from another list can be handed to the delete step")
		pc := ra.PC()
		empty := ck.emptyFormula(ra.Ctx, ra.Site.Call, ra.Elem, g)
		if ra.Force {
			nForce++
			ck.entails("C01.R4", ra.Key, ra.Site.Call, pc, empty, "PC ⇒ empty(n, g) for the force-removed node n")
			continue
		}
		nGrace++
		gp := ck.graceParts(pc, ra.Elem, g)
		var missing []string
		if gp.errNil == nil {
			missing = append(missing, "err == nil test on the taint time")
		}
		if gp.timeNil == nil {
			missing = append(missing, "taint time != nil test")
		}
		if gp.soft == nil {
			missing = append(missing, "strict comparison age(n) > soft_delete_grace_period of this group")
		}
		if gp.hard == nil {
			missing = append(missing, "strict comparison age(n) > hard_delete_grace_period of this group")
		}
		missing = append(missing, gp.problems...)
		reqText := "PC ⇒ ttimeOK(n) ∧ ((age(n) > soft(g) ∧ empty(n,g)) ∨ age(n) > hard(g)), age from n's own stored taint time"
		if len(missing) > 0 {
			ck.fail("C01.R3", ra.Key, pos, fn, reqText, pc.String(), "guard atoms not found on the path to the append: "+strings.Join(missing, "; "))
			continue
		}
		req := And(Atom(gp.errNil), Not(Atom(gp.timeNil)), Or(And(Atom(gp.soft), empty), Atom(gp.hard)))
		ck.entails("C01.R3", ra.Key, ra.Site.Call, pc, req, reqText)
	}
	ck.floor("C01.R3", "grace reaper append sites", nGrace, 1)
	ck.floor("C01.R4", "force reaper append sites", nForce, 1)

	// R5: classification
	ck.classification("C01.R5", map[int]string{1: "tainted", 2: "force"})
	ck.scaleOptsBinding("C01.R5")

	// R6: emptiness
	ck.emptinessShape("C01.R6")

	// R7: restart invariance
	ck.restartInvariance("C01.R7")

	// R8: the cluster view is the listers' view: cached objects and lists are never written
	ck.nodeListImmutability("C01.R8")
	// R9: the group's pod / node listers hand out exactly what the group filter accepts of the
	// backing list (a pod dropped by the lister makes its node look empty to the reapers)
	for _, name := range []string{"FilteredPodsLister", "FilteredNodesLister"} {
		if fn := a.method(a.named(pkgK8s, name), "List"); fn != nil {
			ck.filteredLister("C01.R9", fn)
		}
	}
	// R10: "tainted for longer than the grace period" is measured from what the writer stamped: the
	// reader parses exactly that representation (base-10 int64 seconds; decided as C15.R6) — a
	// lossy reading (floats, other units) turns foreign or far-future values into "long ago"
	ck.timeRoundTrip("C01.R10")
	// R11: "runs no pods" is judged on every pod of the cluster that can still run
	ck.clusterView("C01.R11")
	// R12: and on caches that have been filled: no client before both informers synced
	ck.cacheSynced("C01.R12")
	// R13: "runs no pods belonging to the node group" uses the group's pod list: a pod the group
	// filter wrongly rejects makes its node look empty (the filter predicates, decided as C14)
	ck.filterPredicates(func(int) string { return "C01.R13" })
}

// classification checks the classifier's appends. want maps result index → role:
// 0 untainted, 1 tainted, 2 force, ("cordon" for the ¬cordoned-only reading used by C09).
func (ck *Check) classification(rule string, want map[int]string) {
	a := ck.A
	fn := a.Filter
	ctx := ck.P.NewCtx(fn)
	gl, gr, err := ck.dryAtoms(fn)
	if err != nil {
		ck.undecided(rule, "classifier/dry", "", funcID(fn), "dry-mode atoms", err.Error())
		return
	}
	dry := Or(Atom(gl), Atom(gr))
	// the classifier keeps its signature and hands its body to an inner function (dry mode read once
	// and passed as a flag): the appends are read there, with the parameters bound at the call
	if g, ch := ck.delegate(fn); g != nil {
		fn, ctx = g, ch
	}
	// the return instruction(s)
	var rets []*ssa.Return
	for _, b := range fn.Blocks {
		if r, ok := b.Instrs[len(b.Instrs)-1].(*ssa.Return); ok {
			rets = append(rets, r)
		}
	}
	count := 0
	seenVA := map[string]bool{}
	for idx, role := range want {
		seen := map[*ssa.Call]bool{}
		for _, r := range rets {
			// result lists filled by a local closure (`place(node, forced, tainted)` appending to the
			// named results): one append per call of the closure and store in it
			if vas, ok := ck.closureAppends(fn, ctx, r.Results[idx]); ok {
				for _, va := range vas {
					key := fmt.Sprintf("classifier/result%d/append@%s", idx, va.key)
					if seenVA[key] {
						continue
					}
					seenVA[key] = true
					n := va.elem
					if !isElemOf(n, func(t *Term) bool { return t.Kind == "param" }) {
						ck.fail(rule, key+"/elem", ck.P.instrPos(va.call), funcID(fn), "the classified node is the loop element of the node list parameter", n.String(), "")
						continue
					}
					cordoned := Atom(ck.nodeField(n, "Spec", "Unschedulable"))
					tainted := boolResultFormula(ctx, a.GetTaint, []*Term{n}, 1)
					forced := boolResultFormula(ctx, a.GetForceTaint, []*Term{n}, 1)
					req, text := classReq(role, dry, cordoned, tainted, forced)
					count++
					ck.entails(rule, key, va.call, va.pc, req, text)
				}
				continue
			}
			pr := sliceProv(r.Results[idx])
			for _, root := range pr.Roots {
				if !makeSliceEmpty(root) {
					ck.fail(rule, fmt.Sprintf("classifier/result%d/root", idx), ck.P.instrPos(r), funcID(fn), "classifier result lists are built only by guarded appends", root.String(), "a node list is returned without classification")
				}
			}
			for _, ap := range pr.Appends {
				if seen[ap.Call] {
					continue
				}
				seen[ap.Call] = true
				key := fmt.Sprintf("classifier/result%d/append@%s", idx, ck.P.siteKey(ap.Call))
				if ap.Spread != nil || len(ap.Elems) != 1 {
					ck.undecided(rule, key, ck.P.instrPos(ap.Call), funcID(fn), "one node per append", "append of several elements")
					continue
				}
				n := ctx.Term(ap.Elems[0])
				if !isElemOf(n, func(t *Term) bool { return t.Kind == "param" }) {
					ck.fail(rule, key+"/elem", ck.P.instrPos(ap.Call), funcID(fn), "the classified node is the loop element of the node list parameter", n.String(), "")
					continue
				}
				cordoned := Atom(ck.nodeField(n, "Spec", "Unschedulable"))
				tainted := boolResultFormula(ctx, a.GetTaint, []*Term{n}, 1)
				forced := boolResultFormula(ctx, a.GetForceTaint, []*Term{n}, 1)
				req, text := classReq(role, dry, cordoned, tainted, forced)
				count++
				ck.entails(rule, key, ap.Call, ctx.PC(ap.Call), req, text)
			}
		}
	}
	ck.floor(rule, "classifier append sites", count, len(want))
}

func classReq(role string, dry, cordoned, tainted, forced *Formula) (*Formula, string) {
	switch role {
	case "untainted":
		return Or(dry, And(Not(cordoned), Not(tainted), Not(forced))), "PC ⇒ dry ∨ (¬cordoned(n) ∧ ¬tainted(n) ∧ ¬forced(n))"
	case "tainted":
		return Or(dry, And(Not(cordoned), tainted, Not(forced))), "PC ⇒ dry ∨ (¬cordoned(n) ∧ tainted(n) ∧ ¬forced(n))"
	case "force":
		return Or(dry, And(Not(cordoned), forced)), "PC ⇒ dry ∨ (¬cordoned(n) ∧ forced(n))"
	case "cordon":
		return Or(dry, Not(cordoned)), "PC ⇒ dry ∨ ¬cordoned(n)"
	}
	return FFalse, "unknown role"
}

// virtualAppend: an append to a result list performed by a local closure, seen from one of the
// closure's calls: the appended node, the call, and the condition under which it happens.
type virtualAppend struct {
	call *ssa.Call
	elem *Term
	pc   *Formula
	key  string
}

// closureAppends: v is the load of a local (a named result) that local closures of fn fill:
// every store to it is `*x = append(*x, <one parameter of the closure>)` inside a closure that fn
// only calls (never stores or passes on), and fn itself stores nothing but nil into it. Each
// (call of the closure, store) pair is an append: the element is the call's argument, the
// condition the call's path condition and the store's path condition in the closure with the
// closure's parameters bound to the arguments (boolean arguments as formulas).
func (ck *Check) closureAppends(fn *ssa.Function, ctx *Ctx, v ssa.Value) ([]virtualAppend, bool) {
	ld, ok := v.(*ssa.UnOp)
	if !ok || ld.Op != token.MUL {
		return nil, false
	}
	local, ok := ld.X.(*ssa.Alloc)
	if !ok || local.Referrers() == nil {
		return nil, false
	}
	var out []virtualAppend
	closures := 0
	for _, r := range *local.Referrers() {
		switch x := r.(type) {
		case *ssa.DebugRef, *ssa.UnOp:
		case *ssa.Store:
			if x.Addr != ssa.Value(local) {
				return nil, false
			}
			if k, isK := x.Val.(*ssa.Const); !(isK && k.IsNil()) && !makeSliceEmpty(x.Val) {
				return nil, false // fn appends to it itself: the ordinary provenance applies
			}
		case *ssa.MakeClosure:
			k, _ := x.Fn.(*ssa.Function)
			if k == nil || k.Blocks == nil {
				return nil, false
			}
			closures++
			var fv *ssa.FreeVar
			for i, b := range x.Bindings {
				if b == ssa.Value(local) && i < len(k.FreeVars) {
					fv = k.FreeVars[i]
				}
			}
			if fv == nil || x.Referrers() == nil {
				return nil, false
			}
			// the closure is only called
			var calls []*ssa.Call
			for _, u := range *x.Referrers() {
				switch y := u.(type) {
				case *ssa.DebugRef:
				case *ssa.Call:
					if y.Common().Value != ssa.Value(x) {
						return nil, false
					}
					calls = append(calls, y)
				default:
					return nil, false
				}
			}
			for _, call := range calls {
				args := make([]*Term, len(call.Common().Args))
				for i, av := range call.Common().Args {
					if isBool(av.Type()) {
						args[i] = formulaTerm(ctx.Formula(av))
					} else {
						args[i] = ctx.Term(av)
					}
				}
				kc := ctx.child(k, call, args)
				kc.depth = 0
				// captured variables the closure only reads keep their values; written ones stay its own
				for i, f2 := range k.FreeVars {
					if i < len(x.Bindings) && readOnlyFreeVar(k, f2) {
						if _, isAlloc := x.Bindings[i].(*ssa.Alloc); !isAlloc {
							kc.bind[f2] = ctx.Term(x.Bindings[i])
						}
					}
				}
				ord := 0
				for _, b := range k.Blocks {
					for _, in := range b.Instrs {
						st, isSt := in.(*ssa.Store)
						if !isSt || st.Addr != ssa.Value(fv) {
							continue
						}
						pr := sliceProv(st.Val)
						if len(pr.Appends) != 1 || pr.Appends[0].Spread != nil || len(pr.Appends[0].Elems) != 1 || len(pr.Roots) != 1 {
							return nil, false
						}
						if old, isLoad := pr.Roots[0].(*ssa.UnOp); !isLoad || old.X != ssa.Value(fv) {
							return nil, false
						}
						out = append(out, virtualAppend{call: call, elem: kc.Term(pr.Appends[0].Elems[0]), pc: And(ctx.PC(call), kc.PC(st)),
							key: fmt.Sprintf("%s>store#%d", ck.P.siteKey(call), ord)})
						ord++
					}
				}
			}
		default:
			return nil, false
		}
	}
	return out, closures > 0
}

// classificationComplete: every uncordoned node without either escalator taint lands in the
// classifier's untainted list (outside dry mode): relative to the loop body,
// ¬dry ∧ ¬cordoned(n) ∧ ¬tainted(n) ∧ ¬forced(n) ⇒ (some append to result 0 is reached). A
// classifier that withholds such a node from the taint candidates lets a younger node be tainted
// while an older one stays untainted and unattempted.
func (ck *Check) classificationComplete(rule string) {
	a := ck.A
	fn := a.Filter
	ctx := ck.P.NewCtx(fn)
	gl, gr, err := ck.dryAtoms(fn)
	if err != nil {
		ck.undecided(rule, "classifier/dry", "", funcID(fn), "dry-mode atoms", err.Error())
		return
	}
	dry := Or(Atom(gl), Atom(gr))
	// the classifier keeps its signature and hands its body to an inner function (dry mode read once
	// and passed as a flag): the appends are read there, with the parameters bound at the call
	if g, ch := ck.delegate(fn); g != nil {
		fn, ctx = g, ch
	}
	// every listed node is classified: the loop over the node list runs to the end (a `break` at the
	// first cordoned node would withhold every node listed after it)
	for _, l := range loopsOf(fn) {
		if l.Over == nil {
			continue
		}
		if ot := ctx.Term(l.Over); ot.Kind == "param" {
			ck.cond(l.FullTraversal(), rule, "classifier/full-traversal", ck.P.instrPos(l.Header.Instrs[0]), funcID(fn), "the classifier's loop over the listed nodes runs to the end of the list", "", "nodes listed after the one that ends the loop are in none of the lists: older untainted nodes are withheld from the taint candidates")
		}
	}
	// the appends to result 0, grouped by the loop (the element) they classify
	type group struct {
		n    *Term
		loop *Loop
		have *Formula
	}
	groups := map[string]*group{}
	var order []string
	note := func(t *Term, at *ssa.Call, pc *Formula) {
		if !isElemOf(t, func(x *Term) bool { return x.Kind == "param" }) {
			return
		}
		g := groups[t.Key()]
		if g == nil {
			g = &group{n: t, loop: innermostLoop(fn, at.Block()), have: FFalse}
			groups[t.Key()] = g
			order = append(order, t.Key())
		}
		g.have = Or(g.have, pc)
	}
	seen := map[*ssa.Call]bool{}
	for _, b := range fn.Blocks {
		r, ok := b.Instrs[len(b.Instrs)-1].(*ssa.Return)
		if !ok || len(r.Results) == 0 {
			continue
		}
		if vas, ok := ck.closureAppends(fn, ctx, r.Results[0]); ok {
			for _, va := range vas {
				note(va.elem, va.call, va.pc)
			}
			continue
		}
		for _, ap := range sliceProv(r.Results[0]).Appends {
			if seen[ap.Call] || ap.Spread != nil || len(ap.Elems) != 1 {
				continue
			}
			seen[ap.Call] = true
			note(ctx.Term(ap.Elems[0]), ap.Call, ctx.PC(ap.Call))
		}
	}
	if len(groups) == 0 {
		ck.fail(rule, "classifier/untainted-complete", ck.P.position(fn.Pos()), funcID(fn), "the classifier appends listed nodes to its untainted list", "no such append", "")
		return
	}
	live := 0
	okAll, whyAll, haveAll := true, "", ""
	for _, k := range order {
		g := groups[k]
		if g.loop == nil {
			continue
		}
		cordoned := Atom(ck.nodeField(g.n, "Spec", "Unschedulable"))
		tainted := boolResultFormula(ctx, a.GetTaint, []*Term{g.n}, 1)
		forced := boolResultFormula(ctx, a.GetForceTaint, []*Term{g.n}, 1)
		pre := And(g.loop.bodyPC(ctx), Not(dry), Not(cordoned), Not(tainted), Not(forced))
		if sat, err := Satisfiable(pre); err == nil && !sat {
			continue // a loop that only runs in dry mode
		}
		live++
		okv, why, err2 := Entails(pre, g.have)
		if err2 != nil {
			ck.undecided(rule, "classifier/untainted-complete", ck.P.position(fn.Pos()), funcID(fn), "¬dry ∧ ¬cordoned(n) ∧ ¬tainted(n) ∧ ¬forced(n) ⇒ n is appended to the untainted list", err2.Error())
			return
		}
		if !okv {
			okAll, whyAll = false, why
		}
		haveAll += g.have.String() + "; "
	}
	ck.cond(okAll && live > 0, rule, "classifier/untainted-complete", ck.P.position(fn.Pos()), funcID(fn), "¬dry ∧ ¬cordoned(n) ∧ ¬tainted(n) ∧ ¬forced(n) ⇒ n is appended to the untainted list", haveAll, "an untainted node is withheld from the taint candidates (a younger node can be tainted while it is neither tainted nor attempted): "+whyAll)
}

// nodeField builds n.<f1>.<f2> over the v1.Node struct types.
func (ck *Check) nodeField(n *Term, names ...string) *Term {
	t := n
	var cur types.Type
	if n.Typ != nil {
		cur = n.Typ
	}
	for _, name := range names {
		st := derefStruct(cur)
		if st == nil {
			return &Term{Kind: "opaque", Name: "no-such-field:" + name}
		}
		var f *types.Var
		for i := 0; i < st.NumFields(); i++ {
			if st.Field(i).Name() == name {
				f = st.Field(i)
			}
		}
		if f == nil {
			return &Term{Kind: "opaque", Name: "no-such-field:" + name}
		}
		t = mkField(t, f)
		cur = f.Type()
	}
	return t
}

// emptyMapTest: at compares len(m) with 0 and pc sits on its "not empty" side.
func (ck *Check) emptyMapTest(at *Term, m *Term, pc *Formula) bool {
	if at.Kind != "cmp" || len(at.Args) != 2 {
		return false
	}
	var zero, ln bool
	for _, x := range at.Args {
		if x.Kind == "const" && x.Name == "0" {
			zero = true
		}
		if x.Kind == "len" && len(x.Args) == 1 && x.Args[0].Key() == m.Key() {
			ln = true
		}
	}
	if !zero || !ln {
		return false
	}
	switch at.Name {
	case "==":
		imp, _, _ := Entails(pc, Not(Atom(at)))
		return imp
	case "<":
		// 0 < len(m)
		if at.Args[0].Kind == "const" {
			imp, _, _ := Entails(pc, Atom(at))
			return imp
		}
	}
	return false
}

// inlineGetOrCreate: v merges the hit of a comma-ok lookup m[k] with a value that the miss branch
// stores under m[k] before the merge — v is m[k] either way.
func inlineGetOrCreate(v ssa.Value) (m, k ssa.Value, ok bool) {
	phi, isPhi := v.(*ssa.Phi)
	if !isPhi || len(phi.Edges) != 2 {
		return nil, nil, false
	}
	var lk *ssa.Lookup
	created := -1
	for i, e := range phi.Edges {
		if ex, ok := e.(*ssa.Extract); ok && ex.Index == 0 {
			if l, ok := ex.Tuple.(*ssa.Lookup); ok && l.CommaOk {
				lk = l
				continue
			}
		}
		created = i
	}
	if lk == nil || created < 0 {
		return nil, nil, false
	}
	pred := phi.Block().Preds[created]
	for _, in := range pred.Instrs {
		if mu, ok := in.(*ssa.MapUpdate); ok && mu.Map == lk.X && mu.Key == lk.Index && mu.Value == phi.Edges[created] {
			// the creating branch is the lookup's miss branch
			if iff, ok := lk.Block().Instrs[len(lk.Block().Instrs)-1].(*ssa.If); ok {
				if ex, ok := iff.Cond.(*ssa.Extract); ok && ex.Tuple == ssa.Value(lk) && ex.Index == 1 && lk.Block().Succs[1] == pred {
					return lk.X, lk.Index, true
				}
			}
		}
	}
	return nil, nil, false
}

// scaleOptsBinding: every scaleOpts value built in the scan body binds untainted/tainted/force
// lists to results 0/1/2 of the classifier call, `nodes` to the listed nodes and nodeGroup to
// the scan's group parameter.
func (ck *Check) scaleOptsBinding(rule string) {
	a := ck.A
	fcall, _, ok := ck.scanLists()
	if !ok {
		ck.undecided(rule, "scan/classifier-call", "", funcID(a.Scan), "exactly one classifier call in the scan body", "not found or not unique")
		return
	}
	ctx := ck.P.NewCtx(a.Scan)
	ft := ctx.Term(fcall)
	g := ck.groupTerm(a.Scan)
	wantField := map[string]string{"untaintedNodes": "0", "taintedNodes": "1", "forceTaintedNodes": "2"}
	st := a.TScaleOpts.Underlying().(*types.Struct)
	n := 0
	for _, ci := range callsIn(a.Scan, nil) {
		for _, arg := range ci.Common().Args {
			if !types.Identical(arg.Type(), a.TScaleOpts) {
				continue
			}
			n++
			t := ctx.Term(arg)
			key := ck.P.siteKey(ci) + "/scaleOpts"
			if t.Kind != "struct" {
				ck.undecided(rule, key, ck.P.instrPos(ci), funcID(a.Scan), "scaleOpts argument resolvable field by field", t.String())
				continue
			}
			var bad []string
			for i := 0; i < st.NumFields(); i++ {
				fname := st.Field(i).Name()
				comp := t.Args[i]
				if idx, ok := wantField[fname]; ok {
					if !(comp.Kind == "extract" && comp.Name == idx && comp.Args[0].Key() == ft.Key()) {
						bad = append(bad, fmt.Sprintf("%s = %s (want result %s of the classifier call)", fname, comp, idx))
					}
				}
				if ck.A.isPtrTo(st.Field(i).Type(), a.TState) && (g == nil || comp.Key() != g.Key()) {
					bad = append(bad, fmt.Sprintf("%s = %s (want the scan's own group)", fname, comp))
				}
			}
			ck.cond(len(bad) == 0, rule, key, ck.P.instrPos(ci), funcID(a.Scan), "scaleOpts lists are the classifier's results 0/1/2 and nodeGroup is the scanned group", t.String(), strings.Join(bad, "; "))
		}
	}
	ck.floor(rule, "scaleOpts values passed to actions in the scan body", n, 2)
}

// emptinessShape (C01.R6)
func (ck *Check) emptinessShape(rule string) {
	a := ck.A
	// NodeEmpty ≡ ok ∧ remaining == 0
	{
		fn := a.NodeEmpty
		ctx := ck.P.NewCtx(fn)
		got := ctx.returnFormula(0)
		call := &Term{Kind: "call", Name: funcID(a.PodsRemaining), Fn: a.PodsRemaining, Obj: a.PodsRemaining.Object(), Args: []*Term{paramTerm(fn.Params[0]), paramTerm(fn.Params[1])}}
		okAtom := Atom(&Term{Kind: "extract", Name: "1", Args: []*Term{call}})
		zero := cmpFormula(token.EQL, &Term{Kind: "extract", Name: "0", Args: []*Term{call}}, zeroTerm(types.Typ[types.Int]))
		want := And(okAtom, zero)
		okv, why, err := Equivalent(got, want)
		if err == nil && !okv {
			// NodeEmpty and NodePodsRemaining read the same counting helper: NodePodsRemaining is a
			// straight-line projection of it, so its two results are spelled out in NodeEmpty's terms
			pr := a.PodsRemaining
			if len(pr.Blocks) == 1 {
				if r, isRet := pr.Blocks[0].Instrs[len(pr.Blocks[0].Instrs)-1].(*ssa.Return); isRet && len(r.Results) == 2 {
					ch := ctx.childTerm(call)
					ch.depth = 0
					found, count := termFormula(ch.Term(r.Results[1])), ch.Term(r.Results[0])
					want2 := And(found, cmpFormula(token.EQL, count, zeroTerm(types.Typ[types.Int])))
					if ok2, _, err2 := Equivalent(got, want2); err2 == nil && ok2 {
						okv, why = true, ""
					}
				}
			}
		}
		if err != nil {
			ck.undecided(rule, "NodeEmpty/body", "", funcID(fn), want.String(), err.Error())
		} else {
			ck.cond(okv, rule, "NodeEmpty/body", ck.P.position(fn.Pos()), funcID(fn), "NodeEmpty(n,m) ⇔ found(n) ∧ remaining(n) = 0", got.String(), why)
		}
	}
	// NodePodsRemaining: lookup by node.Name; counter over every pod with ¬daemonset
	{
		fn := a.PodsRemaining
		outerFn := fn
		ctx := ck.P.NewCtx(fn)
		// the count in a method of a small counter value the function delegates to
		if g, ch := ck.delegate(fn); g != nil {
			fn, ctx = g, ch
		}
		var rets []*ssa.Return
		for _, b := range fn.Blocks {
			if r, ok := b.Instrs[len(b.Instrs)-1].(*ssa.Return); ok {
				rets = append(rets, r)
			}
		}
		good := false
		var why []string
		// the counter kept in a field of a local result structure — in NodePodsRemaining itself, or in
		// a helper it projects (count, found) from
		for _, r := range rets {
			for _, mc := range ck.structCounterCases(ctx, r) {
				okM, whyM := ck.memCounter(mc.ctx, mc.count, outerFn)
				if okM {
					good = true
				} else {
					why = append(why, whyM...)
				}
			}
		}
		for _, r := range rets {
			// the "true" return
			isTrue := false
			if k, ok := r.Results[1].(*ssa.Const); ok && k.Value != nil && k.Value.String() == "true" {
				isTrue = true
			} else if imp, _, _ := Entails(ctx.PC(r), ctx.Formula(r.Results[1])); imp {
				isTrue = true // `return remaining, found` on the path where found holds
			}
			if isTrue {
				// the counter: a loop-carried φ here, or the result of a counting helper handed the pods
				countV := r.Results[0]
				fn, ctx := fn, ctx
				if c, isCall := countV.(*ssa.Call); isCall {
					if h := c.Common().StaticCallee(); h != nil && ck.P.inRepo(h) && h.Blocks != nil && h.Signature.Results().Len() == 1 {
						args := make([]*Term, len(c.Common().Args))
						for i, av := range c.Common().Args {
							args[i] = ctx.Term(av)
						}
						ch := ctx.child(h, c, args)
						ch.depth = 0
						var hv ssa.Value
						nret := 0
						for _, hb := range h.Blocks {
							if hr, ok := hb.Instrs[len(hb.Instrs)-1].(*ssa.Return); ok {
								nret++
								hv = hr.Results[0]
							}
						}
						if nret == 1 {
							countV, fn, ctx = hv, h, ch
						}
					}
				}
				_ = fn
				ph, ok := countV.(*ssa.Phi)
				if !ok {
					why = append(why, "count is not a loop-carried counter")
					continue
				}
				l := loopOfHeaderPhi(ph)
				if l == nil || !l.FullTraversal() {
					why = append(why, "the pod loop is not a full range traversal (early exit)")
					continue
				}
				// edges: 0 init; inside: ph or ph+1, +1 exactly under ¬PodIsDaemonSet(elem)
				okCounter := true
				incs := 0
				var initVals []ssa.Value
				for i, e := range ph.Edges {
					pred := ph.Block().Preds[i]
					if !l.Blocks[pred] {
						initVals = append(initVals, e)
						continue
					}
					ck.counterEdge(ctx, l, ph, e, &incs, &okCounter, &why)
				}
				// initial value: 0 when counting the non-daemonset pods up, len(pods) when counting the
				// daemonset pods down
				down := false
				for _, e2 := range ph.Edges {
					if bo, ok := e2.(*ssa.BinOp); ok && bo.Op.String() == "-" {
						down = true
					}
					if p2, ok := e2.(*ssa.Phi); ok {
						for _, e3 := range p2.Edges {
							if bo, ok := e3.(*ssa.BinOp); ok && bo.Op.String() == "-" {
								down = true
							}
						}
					}
				}
				for _, iv := range initVals {
					if !down {
						if k, ok := iv.(*ssa.Const); !ok || k.Int64() != 0 {
							okCounter = false
							why = append(why, "counter does not start at 0")
						}
					} else {
						lc, ok := isBuiltinCall(iv, "len")
						if !ok || ctx.Term(lc.Common().Args[0]).Key() != ctx.Term(l.Over).Key() {
							okCounter = false
							why = append(why, "a counter that is decremented per daemonset pod must start at len(pods)")
						}
					}
				}
				// ranged over nodeInfo.Pods() of the map entry for node.Name
				over := ctx.Term(l.Over)
				okOver := over.Kind == "call" && strings.HasSuffix(over.Name, "NodeInfo).Pods")
				if okOver {
					recv := over.Args[0]
					okOver = recv.Kind == "extract" && recv.Name == "0" && recv.Args[0].Kind == "lookup" &&
						recv.Args[0].Args[0].Key() == paramTerm(outerFn.Params[1]).Key() &&
						recv.Args[0].Args[1].Key() == ck.nodeField(paramTerm(outerFn.Params[0]), "ObjectMeta", "Name").Key()
				}
				if !okOver {
					why = append(why, "loop does not range over the pods filed under node.Name: "+over.String())
				}
				if okCounter && incs >= 1 && okOver {
					good = true
				}
			}
		}
		ck.cond(good, rule, "NodePodsRemaining/counter", ck.P.position(fn.Pos()), funcID(fn), "remaining(n) counts every pod filed under n.Name that is not DaemonSet-owned (full range, +1 exactly under ¬PodIsDaemonSet)", strings.Join(why, "; "), strings.Join(why, "; "))
	}
	// CreateNodeNameToInfoMap files every pod under pod.Spec.NodeName; scan passes its own pod list
	{
		fn := a.CreateInfoMap
		pods := fn.Params[0]
		var podLoop *Loop
		for _, l := range loopsOf(fn) {
			if l.Over == ssa.Value(pods) {
				podLoop = l
			}
		}
		okv := podLoop != nil && podLoop.FullTraversal()
		detail := ""
		if podLoop == nil {
			detail = "no range loop over the pods parameter"
		} else if !okv {
			detail = "the pod loop can exit early"
		} else {
			// AddPod(elem) on every path of the body: the call must be in a block that post-dominates the body entry;
			// approximate: its PC relative to the loop is just the loop condition (no other atoms)
			ctx := ck.P.NewCtx(fn)
			found := false
			for b := range podLoop.Blocks {
				for _, in := range b.Instrs {
					if c, ok := in.(*ssa.Call); ok && c.Common().StaticCallee() != nil && c.Common().StaticCallee().Name() == "AddPod" {
						argT := ctx.Term(c.Common().Args[1])
						bodyPC := podLoop.bodyPC(ctx)
						eq, _, _ := Equivalent(ctx.PC(c), bodyPC)
						recv := ctx.Term(c.Common().Args[0])
						keyOK := recv.Kind == "lookup" && recv.Args[1].Key() == ck.podField(argT, "Spec", "NodeName").Key()
						// … or the entry is fetched through a get-or-create helper h(map, key)
						if rc, ok := c.Common().Args[0].(*ssa.Call); ok && !keyOK {
							if h := rc.Common().StaticCallee(); h != nil && ck.P.inRepo(h) {
								if mi, ki, ok := getOrCreateHelper(h); ok && ki < len(rc.Common().Args) && (mi < len(rc.Common().Args) || mi == 1000) {
									keyOK = ctx.Term(rc.Common().Args[ki]).Key() == ck.podField(argT, "Spec", "NodeName").Key()
								}
							}
						}
						// … or got-or-created in place: e, ok := m[k]; if !ok { e = new(); m[k] = e }
						if !keyOK {
							if _, k, ok := inlineGetOrCreate(c.Common().Args[0]); ok {
								keyOK = ctx.Term(k).Key() == ck.podField(argT, "Spec", "NodeName").Key()
							}
						}
						if isElemOf(argT, func(t *Term) bool { return t.Kind == "param" }) && eq && keyOK {
							found = true
						} else {
							detail = fmt.Sprintf("AddPod(%s) on %s under %s", argT, recv, ctx.PC(c))
						}
					}
				}
			}
			if !found {
				okv = false
				if detail == "" {
					detail = "no unconditional AddPod(pod) under key pod.Spec.NodeName in the pod loop"
				}
			}
		}
		ck.cond(okv, rule, "CreateNodeNameToInfoMap/pods", ck.P.position(fn.Pos()), funcID(fn), "every listed pod is filed under pod.Spec.NodeName (full range, unconditional)", "", detail)
		// scan passes result of its pod lister
		sctx := ck.P.NewCtx(a.Scan)
		okBind := false
		var got string
		for _, ci := range callsTo(a.Scan, fn) {
			t := sctx.Term(ci.Common().Args[0])
			got = t.String()
			// the pod list may reach the scan body through a listing helper: look at what it returns
			cands := []*Term{t}
			if rc, ok := ck.resultCandidates(sctx, t); ok {
				cands = rc
			}
			all := len(cands) > 0
			for _, t := range cands {
				one := false
				if t.Kind == "extract" && t.Name == "0" && t.Args[0].Kind == "invoke" && t.Args[0].Name == "List" {
					recv := t.Args[0].Args[0]
					root, path := recv.fieldPath()
					g := ck.groupTerm(a.Scan)
					if g != nil && root.Key() == g.Key() && len(path) >= 1 && path[len(path)-1] == "Pods" {
						one = true
					}
				}
				all = all && one
			}
			if all {
				okBind = true
			}
		}
		ck.cond(okBind, rule, "scan/info-map-pods", "", funcID(a.Scan), "the node-info map is built from the scanned group's own pod list", got, "")
	}
}

func (ck *Check) podField(p *Term, names ...string) *Term { return ck.nodeField(p, names...) }

// counterEdge validates one loop-carried edge of a counter phi.
func (ck *Check) counterEdge(ctx *Ctx, l *Loop, ph *ssa.Phi, e ssa.Value, incs *int, okp *bool, why *[]string) {
	seen := map[ssa.Value]bool{}
	var rec func(v ssa.Value)
	rec = func(v ssa.Value) {
		if seen[v] {
			return
		}
		seen[v] = true
		if v == ssa.Value(ph) {
			return
		}
		switch x := v.(type) {
		case *ssa.Phi:
			for _, ee := range x.Edges {
				rec(ee)
			}
		case *ssa.BinOp:
			if k, ok := x.Y.(*ssa.Const); ok && x.Op.String() == "+" && k.Int64() == 1 && x.X == ssa.Value(ph) {
				*incs++
				// guard: relative to the body, exactly ¬PodIsDaemonSet(elem)
				pc := ctx.PC(x)
				ds := ck.daemonSetOfElem(ctx, l)
				if ds == nil {
					*okp = false
					*why = append(*why, "increment is not guarded by a PodIsDaemonSet test on the loop element")
					return
				}
				body := l.bodyPC(ctx)
				eq, _, _ := Equivalent(pc, And(body, Not(ds)))
				if !eq {
					*okp = false
					*why = append(*why, "increment condition is not exactly ¬PodIsDaemonSet(pod): "+pc.String())
				}
				return
			}
			// count-down form: the counter starts at len(pods) and loses one exactly under PodIsDaemonSet(pod)
			if k, ok := x.Y.(*ssa.Const); ok && x.Op.String() == "-" && k.Int64() == 1 && x.X == ssa.Value(ph) {
				*incs++
				pc := ctx.PC(x)
				ds := ck.daemonSetOfElem(ctx, l)
				body := l.bodyPC(ctx)
				if ds == nil {
					*okp = false
					*why = append(*why, "decrement is not guarded by a PodIsDaemonSet test on the loop element")
					return
				}
				if eq, _, _ := Equivalent(pc, And(body, ds)); !eq {
					*okp = false
					*why = append(*why, "decrement condition is not exactly PodIsDaemonSet(pod): "+pc.String())
				}
				// the matching initial value (len of the ranged list) is checked by the caller
				return
			}
			*okp = false
			*why = append(*why, "counter updated other than by +1")
		default:
			*okp = false
			*why = append(*why, "counter updated other than by +1")
		}
	}
	rec(e)
}

// restartInvariance (C01.R7): the reapers and the delete step read, of NodeGroupState, only Opts
// and NodeInfoMap; NodeInfoMap is stored in the scan body before every reaper call; no
// package-level variable (other than logging/metrics) is read.
func (ck *Check) restartInvariance(rule string) {
	a := ck.A
	allowed := map[*types.Var]bool{field(a.TState, "Opts"): true, field(a.TState, "NodeInfoMap"): true}
	st := a.TState.Underlying().(*types.Struct)
	stateField := map[*types.Var]bool{}
	for i := 0; i < st.NumFields(); i++ {
		stateField[st.Field(i)] = true
	}
	for _, fn := range append([]*ssa.Function{a.GraceReaper, a.ForceReaper}, a.TryDeleteChain...) {
		var bad []string
		for f := range ck.P.readFields[fn] {
			if stateField[f] && !allowed[f] {
				bad = append(bad, f.Name())
			}
		}
		// globals read in the reaper closure (repo globals only)
		reach := ck.P.reachCut([]*ssa.Function{fn}, nil)
		for g := range reach {
			if pkgPathOfFn(g) != pkgController && pkgPathOfFn(g) != pkgK8s {
				continue
			}
			for _, b := range g.Blocks {
				for _, in := range b.Instrs {
					if u, ok := in.(*ssa.UnOp); ok {
						if gl, ok := u.X.(*ssa.Global); ok && ck.P.isShippedPkg(gl.Pkg.Pkg) && gl.Pkg.Pkg.Path() != repoModule+"/pkg/metrics" && !ck.constantTable(gl) {
							bad = append(bad, "global "+gl.Name())
						}
					}
				}
			}
		}
		ck.cond(len(bad) == 0, rule, funcID(fn)+"/state-reads", "", funcID(fn), "removal decisions read no remembered controller state besides Opts and this scan's NodeInfoMap", strings.Join(bad, ", "), "a removal decision depends on in-memory state that a restart loses: "+strings.Join(bad, ", "))
	}
	// NodeInfoMap store dominates reaper calls in scan
	var store ssa.Instruction
	for _, b := range a.Scan.Blocks {
		for _, in := range b.Instrs {
			if s, ok := in.(*ssa.Store); ok && fieldOfAddr(s.Addr) == field(a.TState, "NodeInfoMap") {
				store = in
			}
		}
	}
	if store == nil {
		ck.fail(rule, "scan/NodeInfoMap-store", "", funcID(a.Scan), "the scan body rebuilds NodeInfoMap", "no store", "emptiness would be judged on a stale map")
		return
	}
	reapReach := func(ci ssa.CallInstruction) bool {
		for _, g := range ck.P.calleesOf(ci) {
			r := ck.P.reachCut([]*ssa.Function{g}, nil)
			if r[a.TryDelete] {
				return true
			}
		}
		return false
	}
	n := 0
	for _, ci := range callsIn(a.Scan, reapReach) {
		n++
		ck.cond(dominatesInstr(store, ci), rule, ck.P.siteKey(ci)+"/after-map-rebuild", ck.P.instrPos(ci), funcID(a.Scan), "NodeInfoMap is rebuilt from this scan's lists before any call that can reach the delete step", "store at "+ck.P.instrPos(store), "a reaper can run on the previous scan's pod map")
	}
	ck.floor(rule, "calls in the scan body that reach the delete step", n, 1)
}

// ---------------------------------------------------------------------------------------------
// C10

func checkC10(ck *Check) {
	a := ck.A
	if !ck.need("C10.R1", map[string]interface{}{"grace reaper": a.GraceReaper, "safeFromDeletion": a.SafeFromDeletion}) {
		return
	}
	aps := ck.deletionFlow("C10.R5")
	n := 0
	for _, ra := range aps {
		if ra.Force {
			continue
		}
		n++
		vidx, vfld := verdictOf(a.SafeFromDeletion)
		var prot *Formula
		switch {
		case vfld != nil:
			// the verdict is a field of the result structure: the atom the reaper tests
			prot = Atom(&Term{Kind: "opaque", Name: "protected?"})
			for _, at := range ra.PC().Atoms() {
				if at.Kind == "field" && at.Obj == vfld && len(at.Args) == 1 && at.Args[0].callRoot() == a.SafeFromDeletion {
					ct := at.Args[0]
					for ct.Kind != "call" {
						ct = ct.Args[0]
					}
					if len(ct.Args) == 1 && ct.Args[0].Key() == ra.Elem.Key() {
						prot = Atom(at)
					}
				}
			}
		case vidx >= 0:
			prot = boolResultFormula(ra.Ctx, a.SafeFromDeletion, []*Term{ra.Elem}, vidx)
		default:
			ck.undecided("C10.R1", ra.Key, ck.P.instrPos(ra.Site.Call), funcID(a.SafeFromDeletion), "the annotation predicate has a boolean verdict (a bool result, or one bool field of a result structure)", "no verdict found")
			continue
		}
		ck.entails("C10.R1", ra.Key, ra.Site.Call, ra.PC(), Not(prot), "PC ⇒ ¬protected(n) for the appended node n")
	}
	ck.floor("C10.R1", "grace reaper append sites", n, 1)

	// R2: predicate shape: ∃ (k,v) ∈ n.Annotations: k == "atlassian.com/no-delete" ∧ v != ""
	ck.protectedPredicate("C10.R2")

	// R3: the protected edge continues; the reaper loop's only exit is exhaustion
	{
		fn := a.GraceReaper
		var main *Loop
		for _, l := range loopsOf(fn) {
			over := ck.P.NewCtx(fn).Term(l.Over)
			if ck.isScaleOptsField(over, "taintedNodes") {
				main = l
			}
		}
		okv := main != nil && main.FullTraversal()
		why := ""
		if main == nil {
			why = "no range loop over opts.taintedNodes"
		} else if !okv {
			why = "the reaper loop can be left before the list is exhausted (break/return), so one node can hold back others"
		}
		ck.cond(okv, "C10.R3", funcID(fn)+"/loop", ck.P.position(fn.Pos()), funcID(fn), "the reaper loop over tainted nodes has no exit other than exhaustion (protected nodes are skipped with continue)", "", why)
	}

	// R4: callers of safeFromDeletion = {grace reaper}; the key constant is read nowhere else
	{
		var bad []string
		for _, c := range ck.P.callers[a.SafeFromDeletion] {
			if c != a.GraceReaper {
				bad = append(bad, funcID(c))
			}
		}
		ck.cond(len(bad) == 0, "C10.R4", "safeFromDeletion/callers", "", funcID(a.SafeFromDeletion), "the annotation predicate is consulted only by the grace reaper (not by tainting, untainting or counting)", strings.Join(bad, ", "), "the no-delete annotation influences "+strings.Join(bad, ", "))
		// other readers of the literal key
		var readers []string
		for _, fn := range ck.P.Funcs {
			if fn == a.SafeFromDeletion {
				continue
			}
			for _, b := range fn.Blocks {
				for _, in := range b.Instrs {
					for _, op := range in.Operands(nil) {
						if k, ok := (*op).(*ssa.Const); ok && k.Value != nil && k.Value.String() == `"atlassian.com/no-delete"` {
							// logging the key is fine: only comparisons / lookups count
							switch in.(type) {
							case *ssa.BinOp, *ssa.Lookup:
								readers = append(readers, funcID(fn)+"@"+ck.P.instrPos(in))
							}
						}
					}
				}
			}
		}
		ck.cond(len(readers) == 0, "C10.R4", "no-delete-key/readers", "", "", "the annotation key is compared / looked up nowhere but in the predicate", strings.Join(readers, ", "), "")
	}
	// R6 the annotation the predicate reads is the API server's: no informer transform, no write
	// into listed objects (decided as C01.R8)
	ck.nodeListImmutability("C10.R6")
	// R7 the only removals that bypass the guard are those of nodes carrying the force-removal taint:
	// the list the force reaper works on holds nothing else (the classifier's guard, decided as C01.R5)
	ck.classification("C10.R7", map[int]string{2: "force"})
	// R8 protection is an annotation on the node object, and tainting is a write of that object: the
	// taint writers change nothing but Spec.Taints of the freshly fetched node (decided as C15.R1 / R2 / R7)
	ck.shareRules(checkC15, "C10.R8", "C15.R1", "C15.R2", "C15.R7")
	// R9 leaving a protected node out of the list protects its machine only if the cloud terminates
	// the instances of the nodes it is handed and no other (decided as C19.R3)
	ck.shareRules(checkC19, "C10.R9", "C19.R3")
}

// protectedPredicate: safeFromDeletion's result 1 is true exactly on returns inside a map
// range over node.Annotations guarded by key == const ∧ val != "".
func (ck *Check) protectedPredicate(rule string) {
	fn := ck.A.SafeFromDeletion
	ctx := ck.P.NewCtx(fn)
	n := paramTerm(fn.Params[0])
	// lookup form: protected(n) ⇔ n.Annotations["atlassian.com/no-delete"] ≠ "" (a missing key reads
	// as the empty string, so this is the same predicate as the search loop)
	vidx, vfld := verdictOf(fn)
	if vidx < 0 {
		ck.undecided(rule, "safeFromDeletion/body", ck.P.position(fn.Pos()), funcID(fn), "the annotation predicate has a boolean verdict", "no verdict found")
		return
	}
	if !infoOf(fn).hasLoop {
		got := ctx.returnFormula(vidx)
		if vfld != nil {
			var alts []*Formula
			for _, b := range fn.Blocks {
				if r, ok := b.Instrs[len(b.Instrs)-1].(*ssa.Return); ok && vidx < len(r.Results) {
					rt := ctx.Term(r.Results[vidx])
					var comp *Term
					if st, _ := rt.Typ.Underlying().(*types.Struct); rt.Kind == "struct" && st != nil {
						for i := 0; i < st.NumFields() && i < len(rt.Args); i++ {
							if st.Field(i) == vfld {
								comp = rt.Args[i]
							}
						}
					}
					switch {
					case rt.Kind == "zero":
						alts = append(alts, And(ctx.BlockPC(b), FFalse))
					case comp == nil:
						alts = append(alts, And(ctx.BlockPC(b), Atom(&Term{Kind: "field", Name: vfld.Name(), Obj: vfld, Args: []*Term{rt}})))
					default:
						alts = append(alts, And(ctx.BlockPC(b), termFormula(comp)))
					}
				}
			}
			got = Or(alts...)
		}
		var empty *Formula
		axiom := FTrue
		isLookup := func(x *Term) bool {
			return x.Kind == "lookup" && len(x.Args) == 2 && x.Args[0].Key() == ck.nodeField(n, "ObjectMeta", "Annotations").Key() && x.Args[1].Kind == "const" && x.Args[1].Name == `"atlassian.com/no-delete"`
		}
		for _, at := range got.Atoms() {
			if at.Kind == "cmp" && at.Name == "==" && hasConstStr(at, `""`) {
				for _, x := range at.Args {
					if isLookup(x) {
						empty = Atom(at)
					}
					// the comma-ok form `v, ok := m[k]`: a missing key reads as "" — ¬ok ⇒ v == ""
					if isExtractOf(x, 0, isLookup) {
						empty = Atom(at)
						okT := &Term{Kind: "extract", Name: "1", Args: []*Term{x.Args[0]}}
						for _, at2 := range got.Atoms() {
							if at2.Key() == okT.Key() {
								axiom = Or(Atom(at2), empty)
							}
						}
					}
				}
			}
		}
		if empty != nil {
			okv, why, _ := Equivalent(And(axiom, got), And(axiom, Not(empty)))
			ck.cond(okv, rule, "safeFromDeletion/body", ck.P.position(fn.Pos()), funcID(fn), "protected(n) ⇔ n.Annotations[\"atlassian.com/no-delete\"] ≠ \"\"", got.String(), why)
			return
		}
	}
	okv := true
	var why []string
	trueRets := 0
	for _, b := range fn.Blocks {
		r, ok := b.Instrs[len(b.Instrs)-1].(*ssa.Return)
		if !ok {
			continue
		}
		if vfld != nil || vidx >= len(r.Results) {
			okv = false
			why = append(why, "a search loop with a structured verdict is not understood")
			continue
		}
		k, isConst := r.Results[vidx].(*ssa.Const)
		if !isConst {
			okv = false
			why = append(why, "non-constant result")
			continue
		}
		if k.Value.String() != "true" {
			continue
		}
		trueRets++
		pc := ctx.BlockPC(b)
		var keyAtom, valAtom *Term
		var others []string
		for _, at := range pc.Atoms() {
			switch {
			case at.Kind == "cmp" && at.Name == "==" && hasConstStr(at, `"atlassian.com/no-delete"`) && hasKind(at, "key"):
				keyAtom = at
			case at.Kind == "cmp" && at.Name == "==" && hasConstStr(at, `""`) && hasKind(at, "val"):
				valAtom = at
			case at.Kind == "ok":
			case ck.emptyMapTest(at, ck.nodeField(n, "ObjectMeta", "Annotations"), pc):
				// an early return for a node without annotations: inside the range over that map the
				// map is not empty anyway
			default:
				others = append(others, at.String())
			}
		}
		if keyAtom == nil || valAtom == nil {
			okv = false
			why = append(why, "true is returned without testing key == \"atlassian.com/no-delete\" and value != \"\": "+pc.String())
			continue
		}
		// the ranged map is node.Annotations
		var kt *Term
		for _, x := range keyAtom.Args {
			if x.Kind == "key" {
				kt = x
			}
		}
		if kt == nil || kt.Args[0].Key() != ck.nodeField(n, "ObjectMeta", "Annotations").Key() {
			okv = false
			why = append(why, "the searched map is not node.Annotations")
		}
		// PC must imply key ∧ ¬empty
		imp, _, _ := Entails(pc, And(Atom(keyAtom), Not(Atom(valAtom))))
		if !imp {
			okv = false
			why = append(why, "return true not guarded by key match ∧ non-empty value: "+pc.String())
		}
		// and conversely the guard alone suffices inside the loop (no extra conditions)
		if len(others) > 0 {
			okv = false
			why = append(why, "extra conditions on protection: "+strings.Join(others, ", "))
		}
	}
	if trueRets == 0 {
		okv = false
		why = append(why, "predicate never returns true")
	}
	// the search loop must be a map range without break (return false only after exhaustion)
	for _, l := range loopsOf(fn) {
		for _, e := range l.Exits {
			if !l.exhaustionExit(e[0]) {
				// exits from inside: must be the `return true` blocks
				if r, ok := e[1].Instrs[len(e[1].Instrs)-1].(*ssa.Return); ok {
					if vidx < len(r.Results) {
						if k, ok := r.Results[vidx].(*ssa.Const); ok && k.Value.String() == "true" {
							continue
						}
					}
				}
				okv = false
				why = append(why, "the annotation search can stop early without a match")
			}
		}
	}
	ck.cond(okv, rule, "safeFromDeletion/body", ck.P.position(fn.Pos()), funcID(fn), "protected(n) ⇔ ∃ (k,v) ∈ n.Annotations: k = \"atlassian.com/no-delete\" ∧ v ≠ \"\"", "", strings.Join(why, "; "))
}

func hasConstStr(at *Term, lit string) bool {
	for _, x := range at.Args {
		if x.Kind == "const" && x.Name == lit {
			return true
		}
	}
	return false
}

func hasKind(at *Term, kind string) bool {
	for _, x := range at.Args {
		if x.Kind == kind {
			return true
		}
	}
	return false
}

// ---------------------------------------------------------------------------------------------
// C09

func checkC09(ck *Check) {
	a := ck.A
	if !ck.need("C09.R1", map[string]interface{}{"scan": a.Scan, "classifier": a.Filter, "taint loop": a.TaintLoop, "untaint loop": a.UntaintLoop}) {
		return
	}
	ck.classification("C09.R1", map[int]string{0: "cordon", 1: "cordon", 2: "cordon"})
	ck.scaleOptsBinding("C09.R2")
	// R2: targets
	ck.actionTargets("C09.R2")
	aps := ck.deletionFlow("C09.R2")
	for _, ra := range aps {
		listName := "taintedNodes"
		if ra.Force {
			listName = "forceTaintedNodes"
		}
		okv := isElemOf(ra.Elem, func(t *Term) bool { return ck.isScaleOptsField(t, listName) })
		ck.cond(okv, "C09.R2", ra.Key+"/elem", ck.P.instrPos(ra.Site.Call), funcID(ra.Reaper), "deleted nodes come from opts."+listName+" only", ra.Elem.String(), "")
	}
	ck.nodeListImmutability("C09.R2")
	// R3: counting
	ck.countingArgs("C09.R3")
	// R4: cordoned list flows only to len
	_, lists, ok := ck.scanLists()
	if ok && lists[3] != nil {
		var bad []string
		for _, r := range *lists[3].Referrers() {
			if c, ok := r.(*ssa.Call); ok {
				if _, isLen := isBuiltinCall(c, "len"); isLen {
					continue
				}
			}
			if _, ok := r.(*ssa.DebugRef); ok {
				continue
			}
			bad = append(bad, ck.P.instrPos(r)+": "+r.String())
		}
		ck.cond(len(bad) == 0, "C09.R4", "scan/cordoned-list-uses", "", funcID(a.Scan), "the cordoned list is used only through len() (logging / metrics)", strings.Join(bad, "; "), "cordoned nodes flow into "+strings.Join(bad, "; "))
	} else {
		ck.info("C09.R4: the classifier's fourth result is unused in the scan body")
		ck.ok("C09.R4", "scan/cordoned-list-uses", "", funcID(a.Scan), "the cordoned list is used only through len()", "unused")
	}
}

// resolveUp rewrites a term of fn in the vocabulary of the scan body by following parameter
// bindings through every call chain scan → … → fn. Returns one term per distinct chain.
func (ck *Check) resolveUp(t *Term, fn *ssa.Function, depth int) ([]*Term, error) {
	if fn == ck.A.Scan || depth > 6 {
		return []*Term{t}, nil
	}
	// does t mention a parameter of fn at all?
	mentions := t.contains(func(x *Term) bool {
		if x.Kind != "param" {
			return false
		}
		prm, ok := x.Val.(*ssa.Parameter)
		return ok && prm.Parent() == fn
	})
	if !mentions {
		return []*Term{t}, nil
	}
	scanReach := ck.P.reachCut([]*ssa.Function{ck.A.Scan}, nil)
	var out []*Term
	ncallers := 0
	for _, caller := range ck.P.callers[fn] {
		if !scanReach[caller] && caller != ck.A.Scan {
			continue
		}
		for _, ci := range callsIn(caller, func(ci ssa.CallInstruction) bool { return ci.Common().StaticCallee() == fn }) {
			ncallers++
			cctx := ck.P.NewCtx(caller)
			bind := map[ssa.Value]*Term{}
			for i, prm := range fn.Params {
				bind[prm] = cctx.Term(ci.Common().Args[i])
			}
			up, err := ck.resolveUp(t.subst(bind), caller, depth+1)
			if err != nil {
				return nil, err
			}
			out = append(out, up...)
		}
	}
	if ncallers == 0 {
		return nil, fmt.Errorf("%s has no static call site reachable from the scan body", funcID(fn))
	}
	return out, nil
}

// listOrigin classifies a scan-level slice term: "U","T","F","K" (classifier results), "all"
// (the node lister's result) or "?".
// resultCandidates: when t is a result of a repo helper called from ctx's function — extract(call),
// or a field of a result structure — the values the helper can return for it (nil / zero results
// left out), read in the helper's frame; ok is false when t has no such form or a return is not
// understood.
func (ck *Check) resultCandidates(ctx *Ctx, t *Term) ([]*Term, bool) {
	var callT *Term
	var fld types.Object
	idx := 0
	switch {
	case t.Kind == "extract" && len(t.Args) == 1 && t.Args[0].Kind == "call":
		callT = t.Args[0]
		fmt.Sscan(t.Name, &idx)
	case t.Kind == "field" && len(t.Args) == 1 && t.Args[0].Kind == "extract" && len(t.Args[0].Args) == 1 && t.Args[0].Args[0].Kind == "call":
		callT, fld = t.Args[0].Args[0], t.Obj
		fmt.Sscan(t.Args[0].Name, &idx)
	case t.Kind == "field" && len(t.Args) == 1 && t.Args[0].Kind == "call":
		callT, fld = t.Args[0], t.Obj
	}
	if callT == nil || callT.Fn == nil || !ck.P.inRepo(callT.Fn) || callT.Fn.Blocks == nil {
		return nil, false
	}
	ch := ctx.childTerm(callT)
	ch.depth = 0
	var out []*Term
	for _, b := range callT.Fn.Blocks {
		r, ok := b.Instrs[len(b.Instrs)-1].(*ssa.Return)
		if !ok || idx >= len(r.Results) {
			continue
		}
		rt := ch.Term(r.Results[idx])
		if rt.Kind == "zero" || (rt.Kind == "const" && rt.Name == "nil") {
			continue
		}
		if fld != nil {
			if rt.Kind != "struct" {
				return nil, false
			}
			st, _ := rt.Typ.Underlying().(*types.Struct)
			var comp *Term
			for i := 0; st != nil && i < st.NumFields() && i < len(rt.Args); i++ {
				if st.Field(i) == fld {
					comp = rt.Args[i]
				}
			}
			if comp == nil || comp.Kind == "zero" || (comp.Kind == "const" && comp.Name == "nil") {
				continue
			}
			rt = comp
		}
		out = append(out, rt)
	}
	return out, true
}

func (ck *Check) listOrigin(t *Term) string {
	fcall, _, ok := ck.scanLists()
	if !ok {
		return "?"
	}
	// a list handed out by a helper of the scan body (e.g. one that lists pods and nodes), directly
	// or as a field of a result structure: every non-nil value the helper can return for it must
	// have the same origin
	if t.callRoot() != ck.A.Filter {
		if cands, ok := ck.resultCandidates(ck.P.NewCtx(ck.A.Scan), t); ok {
			origin := ""
			for _, rt := range cands {
				o := ck.listOrigin(rt)
				if origin != "" && o != origin {
					return "?"
				}
				origin = o
			}
			if origin != "" {
				return origin
			}
		}
	}
	ctx := ck.P.NewCtx(ck.A.Scan)
	ft := ctx.Term(fcall)
	if t.Kind == "extract" && t.Args[0].Key() == ft.Key() {
		return map[string]string{"0": "U", "1": "T", "2": "F", "3": "K"}[t.Name]
	}
	if t.Kind == "extract" && t.Name == "0" && t.Args[0].Kind == "invoke" && t.Args[0].Name == "List" {
		_, path := t.Args[0].Args[0].fieldPath()
		if len(path) > 0 && path[len(path)-1] == "Nodes" {
			return "all"
		}
		if len(path) > 0 && path[len(path)-1] == "Pods" {
			return "pods"
		}
	}
	return "?"
}

// nodeOrigin: for the node argument of an action call, the scan-level list(s) it is an
// element of. Understands the sort bundle idiom: elem(sorted).node with sorted built by
// appending bundle{node: elem(list), …} for every element of list.
func (ck *Check) nodeOrigin(fn *ssa.Function, v ssa.Value) ([]string, string) {
	ctx := ck.P.NewCtx(fn)
	t := ctx.Term(v)
	// the node is a parameter of a helper around the write: its origins are those of the actual
	// argument at every static call site
	if p, ok := v.(*ssa.Parameter); ok {
		idx := -1
		for i, q := range fn.Params {
			if q == p {
				idx = i
			}
		}
		var out []string
		how := ""
		n := 0
		for _, cf := range ck.P.callers[fn] {
			sites := callsTo(cf, fn)
			if len(sites) == 0 {
				return nil, funcID(fn) + " is also entered dynamically from " + funcID(cf)
			}
			for _, ci := range sites {
				n++
				if idx < 0 || idx >= len(ci.Common().Args) {
					return nil, "argument not found"
				}
				o, h := ck.nodeOrigin(cf, ci.Common().Args[idx])
				if len(o) == 0 {
					return nil, h
				}
				out = append(out, o...)
				how = h
			}
		}
		if n > 0 {
			return out, how
		}
	}
	// bundle.node where bundle = elem(sorted)
	listTerm, why := ck.elemSourceList(fn, ctx, v)
	if listTerm == nil {
		return nil, why + " (" + t.String() + ")"
	}
	ups, err := ck.resolveUp(listTerm, fn, 0)
	if err != nil {
		return nil, err.Error()
	}
	var out []string
	for _, u := range ups {
		out = append(out, ck.listOrigin(u))
	}
	return out, listTerm.String()
}

// elemSourceList: v is (a field of) the range element of a slice S; if S is a local slice built
// by a full-range collect loop over L (one append per element, the element stored in the
// appended struct), return L's term; if S is itself a parameter-rooted list, return S's term.
func (ck *Check) elemSourceList(fn *ssa.Function, ctx *Ctx, v ssa.Value) (*Term, string) {
	// peel field selections / loads down to the element load
	cur := v
	var fieldIdx []int
	for {
		switch x := cur.(type) {
		case *ssa.Field:
			fieldIdx = append([]int{x.Field}, fieldIdx...)
			cur = x.X
			continue
		case *ssa.UnOp:
			if fa, ok := x.X.(*ssa.FieldAddr); ok {
				fieldIdx = append([]int{fa.Field}, fieldIdx...)
				// &elem.f where elem address is IndexAddr
				if ia, ok := fa.X.(*ssa.IndexAddr); ok {
					return ck.collectSource(fn, ctx, ia.X, ia.Index, fieldIdx)
				}
				if al, ok := fa.X.(*ssa.Alloc); ok {
					// range element copied into a local (bundle := sorted[i]); find the store
					for _, r := range *al.Referrers() {
						if st, ok := r.(*ssa.Store); ok && st.Addr == ssa.Value(al) {
							if l, ok := st.Val.(*ssa.UnOp); ok {
								if ia, ok := l.X.(*ssa.IndexAddr); ok {
									return ck.collectSource(fn, ctx, ia.X, ia.Index, fieldIdx)
								}
							}
						}
					}
				}
				return nil, "unrecognised element access"
			}
			if ia, ok := x.X.(*ssa.IndexAddr); ok {
				return ck.collectSource(fn, ctx, ia.X, ia.Index, fieldIdx)
			}
		}
		break
	}
	return nil, "not a range element"
}

func (ck *Check) collectSource(fn *ssa.Function, ctx *Ctx, slice, idx ssa.Value, fieldIdx []int) (*Term, string) {
	if rangeLoopOf(idx) == nil {
		return nil, "indexed access is not a range element"
	}
	if len(fieldIdx) == 0 {
		return ctx.Term(slice), ""
	}
	return ck.collectFrom(fn, ctx, slice, fieldIdx, 0)
}

// collectFrom: slice is the result of a collect loop `for i, x := range L { acc = append(acc,
// T{…x…}) }` (in fn, or in a repo helper that fn calls to build it); returns L.
func (ck *Check) collectFrom(fn *ssa.Function, ctx *Ctx, slice ssa.Value, fieldIdx []int, depth int) (*Term, string) {
	// slice must be a collect over some list: header phi? no: it is used after the collect loop, so
	// it is the loop's accumulator phi (or a sort-in-place of it)
	pr := sliceProv(slice)
	var src *Term
	if len(pr.Appends) == 0 && len(pr.Roots) == 1 {
		// make(len(L)) filled index by index in a full range over L
		if _, isMake := pr.Roots[0].(*ssa.MakeSlice); isMake && !makeSliceEmpty(pr.Roots[0]) {
			et, over, ok := ck.mapCollect(fn, ctx, slice)
			if !ok {
				return nil, "sorted slice is a make of non-zero length that is not filled by one unconditional indexed store per element of a list"
			}
			for _, fi := range fieldIdx {
				if et.Kind == "struct" && fi < len(et.Args) {
					et = et.Args[fi]
				} else {
					return nil, "stored element is not a resolvable struct literal: " + et.String()
				}
			}
			if et.Kind != "elem" || et.Args[0].Key() != over.Key() {
				return nil, "collected component is not the element of the traversed list: " + et.String()
			}
			return over, ""
		}
	}
	for _, ap := range pr.Appends {
		if ap.Spread != nil || len(ap.Elems) != 1 {
			return nil, "collect loop appends several elements"
		}
		// appended element is a struct literal load; find the component at fieldIdx
		et := ctx.Term(ap.Elems[0])
		for _, fi := range fieldIdx {
			if et.Kind == "struct" && fi < len(et.Args) {
				et = et.Args[fi]
			} else {
				return nil, "appended element is not a resolvable struct literal: " + et.String()
			}
		}
		if et.Kind != "elem" {
			return nil, "collected component is not a range element: " + et.String()
		}
		l := innermostLoop(fn, ap.Call.Block())
		if l == nil || !l.FullTraversal() {
			return nil, "collect loop is not a full traversal"
		}
		// unconditional in the loop body
		body := l.bodyPC(ctx)
		if eq, _, _ := Equivalent(ctx.PC(ap.Call), body); !eq {
			return nil, "collect append is conditional"
		}
		if src != nil && src.Key() != et.Args[0].Key() {
			return nil, "collect from several lists"
		}
		src = et.Args[0]
	}
	for _, r := range pr.Roots {
		if makeSliceEmpty(r) {
			continue
		}
		// built by a helper: the helper's returned slice must itself be such a collect
		if call, ok := r.(*ssa.Call); ok && depth < 2 {
			if h := call.Common().StaticCallee(); h != nil && ck.P.inRepo(h) && h.Blocks != nil && h.Signature.Results().Len() == 1 {
				args := make([]*Term, len(call.Common().Args))
				for i, av := range call.Common().Args {
					args[i] = ctx.Term(av)
				}
				ch := ctx.child(h, call, args)
				ch.depth = 0
				found := false
				for _, b := range h.Blocks {
					ret, ok := b.Instrs[len(b.Instrs)-1].(*ssa.Return)
					if !ok {
						continue
					}
					sub, why := ck.collectFrom(h, ch, ret.Results[0], fieldIdx, depth+1)
					if sub == nil {
						return nil, "in " + funcID(h) + ": " + why
					}
					if src != nil && src.Key() != sub.Key() {
						return nil, "collect from several lists"
					}
					src, found = sub, true
				}
				if found {
					continue
				}
			}
		}
		return nil, "sorted slice has a non-empty origin: " + r.String()
	}
	if src == nil {
		return nil, "no collect loop found"
	}
	return src, ""
}

// actionTargets (C09.R2 / C03.R3): node arguments of A-TAINT ⊆ U, of A-UNTAINT ⊆ T.
func (ck *Check) actionTargets(rule string) {
	want := map[string]string{"A-TAINT": "U", "A-UNTAINT": "T"}
	n := 0
	for _, s := range ck.A.A {
		w, ok := want[s.Class]
		if !ok {
			continue
		}
		n++
		origins, how := ck.nodeOrigin(s.Fn, s.Call.Common().Args[0])
		okv := len(origins) > 0
		for _, o := range origins {
			if o != w {
				okv = false
			}
		}
		ck.cond(okv, rule, ck.P.siteKey(s.Call)+"/target", ck.P.instrPos(s.Call), funcID(s.Fn), fmt.Sprintf("the node handed to %s is an element of the classifier's list %s in every calling context", s.Class, w), fmt.Sprintf("origins %v via %s", origins, how),
			fmt.Sprintf("the node can come from %v (%s)", origins, how))
	}
	ck.floor(rule, "taint/untaint action sites", n, 2)
}

// countingArgs (C09.R3, C05.R4, C13.R5): capacity list, percent node count, delta node list = U.
func (ck *Check) countingArgs(rule string) {
	a := ck.A
	capFn := ck.P.SSAPkg[pkgK8s].Func("CalculateNodesCapacity")
	type want struct {
		fn   *ssa.Function
		arg  int
		lenf bool
		name string
	}
	ws := []want{{capFn, 0, false, "capacity node list"}, {a.CalcPercent, 4, true, "percent node count"}, {a.CalcDelta, 0, false, "delta node list"}}
	for _, w := range ws {
		if w.fn == nil {
			ck.lost(rule, w.name, "function not found")
			continue
		}
		wfn := w.fn
		cs := ck.bodyCalls(a.Scan, func(ci ssa.CallInstruction) bool { return ci.Common().StaticCallee() == wfn })
		if len(cs) == 0 {
			ck.fail(rule, "scan/"+w.name, "", funcID(a.Scan), "the scan body calls "+funcID(w.fn), "no call", "")
			continue
		}
		for _, bc := range cs {
			ci := bc.Call
			t := bc.Ctx.Term(ci.Common().Args[w.arg])
			if w.lenf {
				if t.Kind == "len" {
					t = t.Args[0]
				} else {
					ck.fail(rule, ck.P.siteKey(ci)+"/"+w.name, ck.P.instrPos(ci), funcID(a.Scan), w.name+" is len(untainted list)", t.String(), "")
					continue
				}
			}
			o := ck.listOrigin(t)
			ck.cond(o == "U", rule, ck.P.siteKey(ci)+"/"+w.name, ck.P.instrPos(ci), funcID(a.Scan), w.name+" is the classifier's untainted list", t.String()+" (origin "+o+")", "capacity / counts include nodes outside the untainted uncordoned list")
		}
	}
}

// boolResultFormula: the formula a context produces for boolean result idx of a call of fn with
// the given argument terms: the inlined return formula when fn is inlinable there, else the atom
// of the call (or of its idx-th component).
func boolResultFormula(ctx *Ctx, fn *ssa.Function, args []*Term, idx int) *Formula {
	call := &Term{Kind: "call", Name: funcID(fn), Fn: fn, Obj: fn.Object(), Args: args}
	if ctx.inlinable(fn) && !ctx.p.noExpand[fn] {
		return ctx.childTerm(call).returnFormula(idx)
	}
	if fn.Signature.Results().Len() == 1 {
		return Atom(call)
	}
	return Atom(&Term{Kind: "extract", Name: fmt.Sprint(idx), Args: []*Term{call}})
}

// getOrCreateHelper: h(…, m map[K]V, …, k K, …) V returns, on every path, the entry of m under k:
// the value of a comma-ok lookup m[k], or a value it has just stored under m[k]. Returns the
// parameter indices of the map and the key.
func getOrCreateHelper(h *ssa.Function) (int, int, bool) {
	if h.Blocks == nil || h.Signature.Results().Len() != 1 || infoOf(h).hasLoop {
		return 0, 0, false
	}
	paramIdx := func(v ssa.Value) int {
		for i, p := range h.Params {
			if ssa.Value(p) == v {
				return i
			}
		}
		// a closure over the map: the captured variable (or a load of it) stands for "the" map
		if ld, ok := v.(*ssa.UnOp); ok {
			v = ld.X
		}
		if _, ok := v.(*ssa.FreeVar); ok {
			return 1000
		}
		return -1
	}
	mi, ki := -1, -1
	entry := func(v ssa.Value) bool {
		// comma-ok lookup result
		if ex, ok := v.(*ssa.Extract); ok && ex.Index == 0 {
			if lk, ok := ex.Tuple.(*ssa.Lookup); ok {
				m, k := paramIdx(lk.X), paramIdx(lk.Index)
				if m >= 0 && k >= 0 && (mi < 0 || (mi == m && ki == k)) {
					mi, ki = m, k
					return true
				}
			}
			return false
		}
		if lk, ok := v.(*ssa.Lookup); ok && !lk.CommaOk {
			m, k := paramIdx(lk.X), paramIdx(lk.Index)
			if m >= 0 && k >= 0 && (mi < 0 || (mi == m && ki == k)) {
				mi, ki = m, k
				return true
			}
			return false
		}
		// a value stored under m[k] in this function
		for _, b := range h.Blocks {
			for _, in := range b.Instrs {
				if mu, ok := in.(*ssa.MapUpdate); ok && mu.Value == v {
					m, k := paramIdx(mu.Map), paramIdx(mu.Key)
					if m >= 0 && k >= 0 && (mi < 0 || (mi == m && ki == k)) {
						mi, ki = m, k
						return true
					}
				}
			}
		}
		return false
	}
	n := 0
	for _, b := range h.Blocks {
		r, ok := b.Instrs[len(b.Instrs)-1].(*ssa.Return)
		if !ok {
			continue
		}
		n++
		vals := []ssa.Value{r.Results[0]}
		if ph, ok := r.Results[0].(*ssa.Phi); ok {
			vals = ph.Edges
		}
		for _, v := range vals {
			if !entry(v) {
				return 0, 0, false
			}
		}
	}
	return mi, ki, n > 0 && mi >= 0
}

// daemonSetOfElem: the formula of PodIsDaemonSet(element of loop l) in ctx's vocabulary — the call
// atom, or the predicate's own reading when the context inlines it.
func (ck *Check) daemonSetOfElem(ctx *Ctx, l *Loop) *Formula {
	kp := ck.P.SSAPkg[pkgK8s]
	if kp == nil || l == nil || l.IdxPhi == nil || l.Over == nil {
		return nil
	}
	isDS := kp.Func("PodIsDaemonSet")
	if isDS == nil {
		return nil
	}
	over := ctx.Term(l.Over)
	el := &Term{Kind: "elem", Args: []*Term{over}, ID: "L" + ctx.instrID(l.IdxPhi), Typ: elemTypeOf(over.Typ)}
	return boolResultFormula(ctx, isDS, []*Term{el}, 0)
}

// dryGuardAtCallers: the action site s sits in a helper; at every static call of that helper, with
// the helper's parameters bound to the arguments, path condition of the call ∧ path condition of
// the site implies ¬dry(g) in the caller's vocabulary.
func (ck *Check) dryGuardAtCallers(s Site) bool {
	h := s.Fn
	for _, g := range ck.P.addressTaken() {
		if g == h {
			return false
		}
	}
	n := 0
	for _, caller := range ck.P.callers[h] {
		sites := callsTo(caller, h)
		if len(sites) == 0 {
			return false
		}
		req, err := ck.notDry(caller)
		if err != nil {
			return false
		}
		cctx := ck.P.NewCtx(caller)
		for _, ci := range sites {
			call, ok := ci.(*ssa.Call)
			if !ok {
				return false
			}
			args := make([]*Term, len(call.Common().Args))
			for i, av := range call.Common().Args {
				t := cctx.Term(av)
				if isBool(av.Type()) {
					t = formulaTerm(cctx.Formula(av))
				}
				args[i] = t
			}
			ch := cctx.child(h, call, args)
			ch.depth = 0
			n++
			if imp, _, _ := Entails(And(cctx.PC(call), ch.PC(s.Call)), req); !imp {
				return false
			}
		}
	}
	return n > 0
}

// callRoot: the function whose call t is a result (or a field of a result) of.
func (t *Term) callRoot() *ssa.Function {
	for x := t; x != nil; {
		switch {
		case x.Kind == "call":
			return x.Fn
		case (x.Kind == "extract" || x.Kind == "field") && len(x.Args) == 1:
			x = x.Args[0]
		default:
			return nil
		}
	}
	return nil
}

// verdictOf: where a predicate function hands out its boolean verdict — the index of its bool
// result, or (for a single structure result) index 0 and the structure's only bool field.
func verdictOf(fn *ssa.Function) (int, *types.Var) {
	res := fn.Signature.Results()
	idx := -1
	for i := 0; i < res.Len(); i++ {
		if isBool(res.At(i).Type()) {
			if idx >= 0 {
				return -1, nil
			}
			idx = i
		}
	}
	if idx >= 0 {
		return idx, nil
	}
	if res.Len() == 1 {
		if st, ok := res.At(0).Type().Underlying().(*types.Struct); ok {
			var f *types.Var
			for i := 0; i < st.NumFields(); i++ {
				if isBool(st.Field(i).Type()) {
					if f != nil {
						return -1, nil
					}
					f = st.Field(i)
				}
			}
			if f != nil {
				return 0, f
			}
		}
	}
	return -1, nil
}

// structCounterCase: a return on which "found" holds whose count is a memory-carried value.
type structCounterCase struct {
	ctx   *Ctx
	count *Term
}

// structCounterCases: for return r of NodePodsRemaining (results count, found) the cases in which
// found is true and the count is the value of a field of a local structure: directly, or as the
// `count` / `found` projections of a structure returned by a repo helper.
func (ck *Check) structCounterCases(ctx *Ctx, r *ssa.Return) []structCounterCase {
	if len(r.Results) != 2 {
		return nil
	}
	var out []structCounterCase
	ct, ft := ctx.Term(r.Results[0]), ctx.Term(r.Results[1])
	if ct.Kind == "memphi" {
		if imp, _, _ := Entails(ctx.PC(r), termFormula(ft)); imp {
			out = append(out, structCounterCase{ctx, ct})
		}
		return out
	}
	// projections of one helper call
	if !(ct.Kind == "field" && ft.Kind == "field" && len(ct.Args) == 1 && len(ft.Args) == 1 && ct.Args[0].Key() == ft.Args[0].Key()) {
		return nil
	}
	base := ct.Args[0]
	if base.Kind != "call" || base.Fn == nil || !ck.P.inRepo(base.Fn) || base.Fn.Blocks == nil {
		return nil
	}
	ch := ctx.childTerm(base)
	ch.depth = 0
	for _, b := range base.Fn.Blocks {
		hr, ok := b.Instrs[len(b.Instrs)-1].(*ssa.Return)
		if !ok || len(hr.Results) != 1 {
			continue
		}
		rt := ch.Term(hr.Results[0])
		st, _ := rt.Typ.Underlying().(*types.Struct)
		if rt.Kind != "struct" || st == nil {
			continue
		}
		var cc, fc *Term
		for i := 0; i < st.NumFields() && i < len(rt.Args); i++ {
			if st.Field(i) == ct.Obj {
				cc = rt.Args[i]
			}
			if st.Field(i) == ft.Obj {
				fc = rt.Args[i]
			}
		}
		if cc == nil || fc == nil || cc.Kind != "memphi" {
			continue
		}
		if imp, _, _ := Entails(ch.PC(hr), termFormula(fc)); imp {
			out = append(out, structCounterCase{ch, cc})
		}
	}
	return out
}

// memCounter: t, a loop-carried value of a local's field, is a counter of the non-DaemonSet pods
// filed under node.Name: 0 before the loop, +1 on exactly the iterations with ¬PodIsDaemonSet(pod),
// unchanged otherwise, over a full range of nodeInfo.Pods() of the map entry for the node's name.
func (ck *Check) memCounter(ctx *Ctx, t *Term, outerFn *ssa.Function) (bool, []string) {
	ms, ok := memphiInfo[t.Key()]
	if !ok {
		return false, []string{"count is not a loop-carried counter"}
	}
	c := ms.c
	fn := c.fn
	hdr := fn.Blocks[ms.blk]
	var l *Loop
	for _, x := range loopsOf(fn) {
		if x.Header == hdr {
			l = x
		}
	}
	if l == nil || !l.FullTraversal() {
		return false, []string{"the pod loop is not a full range traversal (early exit)"}
	}
	var why []string
	inc := FFalse
	incs := 0
	for _, p := range hdr.Preds {
		v := c.memAt(ms.a, ms.path, p.Index, len(p.Instrs), ms.typ)
		if !l.Blocks[p] {
			if k, isK := v.isConstInt(); !(isK && k == 0) && v.Kind != "zero" {
				why = append(why, "counter does not start at 0")
			}
			continue
		}
		gs, ts := []*Formula{c.edgePC(p, hdr)}, []*Term{v}
		if v.Kind == "memphi" && v.Key() != t.Key() {
			ig, it := memCases(v, 0)
			gs, ts = nil, nil
			for i := range it {
				gs = append(gs, And(c.edgePC(p, hdr), ig[i]))
				ts = append(ts, it[i])
			}
		}
		for i, tv := range ts {
			if tv.Key() == t.Key() {
				continue
			}
			isInc := false
			if tv.Kind == "binop" && tv.Name == "+" && len(tv.Args) == 2 {
				for j := 0; j < 2; j++ {
					if k, isK := tv.Args[j].isConstInt(); isK && k == 1 && tv.Args[1-j].Key() == t.Key() {
						isInc = true
					}
				}
			}
			if !isInc {
				why = append(why, "counter updated other than by +1: "+tv.String())
				continue
			}
			incs++
			inc = Or(inc, gs[i])
		}
	}
	ds := ck.daemonSetOfElem(c, l)
	if ds == nil {
		why = append(why, "increment is not guarded by a PodIsDaemonSet test on the loop element")
	} else {
		body := And(c.BlockPC(hdr), c.edgeCond(hdr, hdr.Succs[0]))
		if eq, _, _ := Equivalent(inc, And(body, Not(ds))); !eq || incs == 0 {
			why = append(why, "increment condition is not exactly ¬PodIsDaemonSet(pod): "+inc.String())
		}
	}
	over := c.Term(l.Over)
	okOver := over.Kind == "call" && strings.HasSuffix(over.Name, "NodeInfo).Pods")
	if okOver {
		recv := over.Args[0]
		okOver = recv.Kind == "extract" && recv.Name == "0" && recv.Args[0].Kind == "lookup" &&
			recv.Args[0].Args[0].Key() == paramTerm(outerFn.Params[1]).Key() &&
			recv.Args[0].Args[1].Key() == ck.nodeField(paramTerm(outerFn.Params[0]), "ObjectMeta", "Name").Key()
	}
	if !okOver {
		why = append(why, "loop does not range over the pods filed under node.Name: "+over.String())
	}
	return len(why) == 0, why
}

// constantTable: the package-level variable is written only by its package's initialiser — never
// assigned, and (for a map or a slice) never updated through a load of it, and its address goes
// nowhere: a table of constants, the same after every restart.
func (ck *Check) constantTable(gl *ssa.Global) bool {
	for fn := range ssautil.AllFunctions(ck.P.SSA) {
		if fn.Pkg != gl.Pkg {
			continue
		}
		isInit := fn.Name() == "init" && fn.Synthetic != ""
		for _, b := range fn.Blocks {
			for _, in := range b.Instrs {
				for _, op := range in.Operands(nil) {
					if *op != ssa.Value(gl) {
						continue
					}
					switch x := in.(type) {
					case *ssa.UnOp:
						// a load: what is done with the loaded map / slice?
						if x.Op != token.MUL {
							return false
						}
						if isInit {
							continue
						}
						for _, r := range *x.Referrers() {
							switch y := r.(type) {
							case *ssa.MapUpdate:
								if y.Map == ssa.Value(x) {
									return false
								}
							case *ssa.IndexAddr:
								for _, rr := range *y.Referrers() {
									if st, ok := rr.(*ssa.Store); ok && st.Addr == ssa.Value(y) {
										return false
									}
								}
							case *ssa.Lookup, *ssa.Index, *ssa.Range, *ssa.DebugRef:
							case *ssa.Call:
								if _, isB := y.Common().Value.(*ssa.Builtin); !isB {
									return false
								}
							default:
								return false
							}
						}
					case *ssa.Store:
						if !isInit || x.Addr != ssa.Value(gl) {
							return false
						}
					case *ssa.DebugRef:
					default:
						return false
					}
				}
			}
		}
	}
	return true
}
