package main

import (
	"flag"
	"fmt"
	"os"
	"sort"
	"strings"

	"golang.org/x/tools/go/ssa"
)

func usage() {
	fmt.Fprintln(os.Stderr, `usage:
  escalint check  -prop Cxx|all [-tier quick|thorough] [-repo /repo] [-verif /verif]
  escalint explain <report.json>
  escalint census [-repo /repo]
  escalint dump   -func <funcID> [-repo /repo]      (development aid: path conditions of every call)
  escalint funcs  [-repo /repo]`)
	os.Exit(2)
}

func main() {
	if len(os.Args) < 2 {
		usage()
	}
	switch os.Args[1] {
	case "check":
		os.Exit(cmdCheck(os.Args[2:]))
	case "explain":
		os.Exit(cmdExplain(os.Args[2:]))
	case "census":
		os.Exit(cmdCensus(os.Args[2:]))
	case "dump":
		os.Exit(cmdDump(os.Args[2:]))
	case "funcs":
		os.Exit(cmdFuncs(os.Args[2:]))
	case "selftest":
		os.Exit(cmdSelftest(os.Args[2:]))
	case "extcalls":
		os.Exit(cmdExtCalls(os.Args[2:]))
	default:
		usage()
	}
}

func cmdFuncs(args []string) int {
	fs := flag.NewFlagSet("funcs", flag.ExitOnError)
	repo := fs.String("repo", "/repo", "repository root")
	fs.Parse(args)
	p, err := loadProg(*repo, "", nil)
	if err != nil {
		fmt.Fprintln(os.Stderr, err)
		return 1
	}
	for _, fn := range p.Funcs {
		fi := infoOf(fn)
		var cs []string
		for _, g := range p.callees[fn] {
			cs = append(cs, funcID(g))
		}
		fmt.Printf("%-70s blocks=%d instrs=%d loop=%v readOnly=%v -> %s\n", funcID(fn), len(fn.Blocks), fi.ninstr, fi.hasLoop, p.readOnly(fn), strings.Join(cs, ", "))
	}
	return 0
}

func cmdDump(args []string) int {
	fs := flag.NewFlagSet("dump", flag.ExitOnError)
	repo := fs.String("repo", "/repo", "repository root")
	name := fs.String("func", "", "function id")
	depth := fs.Int("depth", 3, "inline depth")
	fs.Parse(args)
	p, err := loadProg(*repo, "", nil)
	if err != nil {
		fmt.Fprintln(os.Stderr, err)
		return 1
	}
	inlineDepth = *depth
	fn := p.Func(*name)
	if fn == nil {
		var cands []string
		for _, f := range p.Funcs {
			if strings.Contains(funcID(f), *name) {
				cands = append(cands, funcID(f))
			}
		}
		sort.Strings(cands)
		fmt.Fprintln(os.Stderr, "no such function; candidates:", cands)
		return 1
	}
	c := p.NewCtx(fn)
	for _, b := range fn.Blocks {
		fmt.Printf("block %d (%s)  PC: %s\n", b.Index, b.Comment, c.BlockPC(b))
		for _, in := range b.Instrs {
			switch x := in.(type) {
			case ssa.CallInstruction:
				var t string
				if v, ok := x.(*ssa.Call); ok {
					t = c.Term(v).String()
				} else {
					t = x.String()
				}
				fmt.Printf("    %-28s call %s\n", p.instrPos(in), t)
			case *ssa.Store:
				fmt.Printf("    %-28s store %s <- %s\n", p.instrPos(in), c.Term(x.Addr), c.Term(x.Val))
			case *ssa.Return:
				var rs []string
				for _, r := range x.Results {
					if isBool(r.Type()) {
						rs = append(rs, c.Formula(r).String())
					} else {
						rs = append(rs, c.Term(r).String())
					}
				}
				fmt.Printf("    %-28s return %s\n", p.instrPos(in), strings.Join(rs, ", "))
			}
		}
	}
	return 0
}

// cmdExtCalls lists the non-repo callees of repo functions reachable from RunOnce (debug aid for
// the library-precondition table of C20.R8).
func cmdExtCalls(args []string) int {
	fs := flag.NewFlagSet("extcalls", flag.ExitOnError)
	repo := fs.String("repo", "/repo", "repository root")
	fs.Parse(args)
	p, err := loadProg(*repo, "", nil)
	if err != nil {
		fmt.Fprintln(os.Stderr, err)
		return 1
	}
	a := resolveAnchors(p)
	reach := p.reachCut([]*ssa.Function{a.RunOnce}, nil)
	cnt := map[string]int{}
	for fn := range reach {
		if !p.inRepo(fn) || fn.Blocks == nil {
			continue
		}
		for _, b := range fn.Blocks {
			for _, in := range b.Instrs {
				ci, ok := in.(ssa.CallInstruction)
				if !ok {
					continue
				}
				cc := ci.Common()
				if cc.IsInvoke() {
					cnt["invoke "+cc.Value.Type().String()+"."+cc.Method.Name()]++
					continue
				}
				if f := cc.StaticCallee(); f != nil && !p.inRepo(f) {
					cnt[f.String()]++
				} else if _, ok := cc.Value.(*ssa.Builtin); ok {
					cnt["builtin "+cc.Value.Name()]++
				}
			}
		}
	}
	for _, k := range sortedKeys(cnt) {
		fmt.Printf("%4d %s\n", cnt[k], k)
	}
	return 0
}
