#!/usr/bin/env python3
"""Run every check on each behaviour-preserving refactoring in refactorings/*.diff (patches written by
independent sub-agents; each compiles and passes the 320 tests). None may raise an alarm.
usage: check_refactorings.py [-j N] [-k substr,substr] [-v]"""
import os, sys, subprocess, tempfile, shutil, glob
from concurrent.futures import ThreadPoolExecutor
HERE = os.path.dirname(os.path.abspath(__file__))
ENV = dict(os.environ, GOFLAGS="-mod=mod -trimpath", GOPROXY="off", GOSUMDB="off", GOTOOLCHAIN="local")
ENV.pop("GOWORK", None)

def one(path):
    name = os.path.basename(path)[:-5]
    tmp = tempfile.mkdtemp(prefix="rfchk-", dir="/tmp")
    try:
        dst = os.path.join(tmp, "repo")
        subprocess.run(["rsync", "-a", "--exclude", ".git", "/repo/", dst + "/"], check=True)
        r = subprocess.run(["patch", "-p1", "-s", "-i", path], cwd=dst, capture_output=True, text=True, errors="replace")
        if r.returncode != 0:
            return name, "stale", ["patch does not apply to the current tree: " + (r.stdout + r.stderr).strip()[:200]]
        b = subprocess.run(["go", "build", "./..."], cwd=dst, env=ENV, capture_output=True, text=True, errors="replace")
        if b.returncode != 0:
            return name, "stale", ["does not compile: " + b.stderr.strip()[:200]]
        c = subprocess.run([os.environ.get("ESCALINT_BIN") or os.path.join(HERE, "bin", "escalint"), "check", "-prop", "all", "-repo", dst, "-verif", HERE, "-n"], capture_output=True, text=True, errors="replace", env=ENV)
        lines = [l for l in c.stdout.splitlines() if l.startswith(("VIOLATED", "UNDECIDED", "VACUOUS", "ANCHOR-LOST"))]
        return name, "green" if c.returncode == 0 else "ALARM", lines
    finally:
        shutil.rmtree(tmp, ignore_errors=True)

def main():
    subprocess.run([os.path.join(HERE, "run"), "version"], capture_output=True)
    j = int(sys.argv[sys.argv.index("-j") + 1]) if "-j" in sys.argv else 8
    ks = sys.argv[sys.argv.index("-k") + 1].split(",") if "-k" in sys.argv else None
    verbose = "-v" in sys.argv
    files = sorted(glob.glob(os.path.join(HERE, "refactorings", "*.diff")))
    if ks:
        files = [f for f in files if any(k in os.path.basename(f) for k in ks)]
    bad = 0
    with ThreadPoolExecutor(j) as ex:
        for name, st, lines in ex.map(one, files):
            rules = sorted(set(l.split()[1] for l in lines if len(l.split()) > 1)) if st == "ALARM" else []
            print("%-6s %-10s %s" % (st, name, " ".join(rules) if st == "ALARM" else (lines[0] if lines else "")))
            if verbose and st == "ALARM":
                for l in lines:
                    print("        " + l[:400])
            if st != "green":
                bad += 1
    print("%d refactorings, %d not green" % (len(files), bad))
    sys.exit(1 if bad else 0)

if __name__ == "__main__":
    main()
