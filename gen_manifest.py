#!/usr/bin/env python3
"""Generates MANIFEST.json from the table below (kept next to the checker so the two stay in step)."""
import json, os
HERE = os.path.dirname(os.path.abspath(__file__))

BASELINE = "cd /repo && GOFLAGS=-mod=mod GOPROXY=off GOSUMDB=off GOTOOLCHAIN=local go test -json -vet=off -count=1 -timeout 25m ./..."

TRUST = ("Trusted base: the Go type checker, golang.org/x/tools v0.29.0 go/packages+go/ssa, escalint's own engines; "
         "library code behaves as documented; RunOnce is the only goroutine touching group state; no integer overflow. "
         "Decides the structural clauses named in DESIGN.md §4 for this property, on every path of the current source; "
         "it does not run escalator.")

# id: (level, technique, text, design_ref, implemented)
P = {
 "C01": ("proof", "path-condition implication (truth table) + call-graph layering + slice provenance on go/ssa",
         "All-paths safety: deletes are issued only for nodes the reapers appended under taint-time-readable ∧ ((age>soft ∧ empty) ∨ age>hard) / force ∧ empty, from the classifier's tainted lists, reading only the node's own stored taint time.", "§4 C01"),
 "C02": ("proof", "path-condition implication at every action-reaching call + must-pass-through on the CFG + boolean field post-state analysis of the lock methods + CFG reachability from lock-arming calls to action-reaching calls (armed last)",
         "No action-reaching call in the scan body runs unless a locked() test on the group's lock was false on that path; the lock is armed exactly after a successful cloud increase and nothing acts on the group after the arming call in the same scan; locked() ⇒ elapsed < cool-down.", "§4 C02"),
 "C03": ("proof", "linear-fact entailment (case-split Fourier–Motzkin over path conditions) + bounded-accumulator loop recogniser + provenance",
         "Per scan: successful taint writes ≤ max(0, |untainted| − min_nodes), only on members of the untainted list, none when below the minimum.", "§4 C03"),
 "C04": ("proof", "linear-fact entailment through the inlined clamp helper at the single resize site",
         "At the only IncreaseSize call: d ≥ 1, TargetSize + d ≤ MaxSize and ≤ max_nodes on every path; all actions are behind the node-count bounds guard.", "§4 C04"),
 "C05": ("other", "rational-function normal form (exact multivariate ℚ arithmetic) of the float expressions vs the documented closed forms + Ceil/Max skeleton + constant agreement + provenance",
         "Structural necessary condition: the real-valued delta and percent functions are the documented ones, rounded up, over both resources and the untainted count, with a consistent from-zero sentinel. Floating-point rounding (the '+1') is not decided.", "§4 C05"),
 "C06": ("other", "guarded-value table of the delta φ checked as propositional equivalences (modulo edge strictness) + dispatch guards + reachability of action classes per arm",
         "The band → delta → action decision table is the documented one on all paths; not the floating-point value of u at a threshold.", "§4 C06"),
 "C07": ("other", "dominance / path-condition rules in ScaleUp + linear remainder + loop recogniser + comparator cross-check + typestate (MUT/SYNC/READ) over the provider cache with call-graph summaries",
         "Untaint precedes and gates the cloud request, which is exactly N − untainted ≥ 1; newest-first over all tainted nodes; no stale cached desired capacity is read for a decision within one scan.", "§4 C07"),
 "C08": ("other", "comparator normal form + collect-loop / sort-dominates-loop / bounded-accumulator recognisers",
         "The taint loop visits a complete oldest-first sorted copy of the untainted list in order and skips a node only when its write failed (modulo sort.Sort).", "§4 C08"),
 "C12": ("other", "wiring checks on canonical terms (same loop element for name/state/listers/cloud lookup) + store census over the scan-reachable call graph + loop-exit path conditions",
         "State partition and wiring: nothing reachable from a group's scan writes shared state; every lookup, lister and cloud group is keyed by the group's own options; only the two documented conditions leave the group loop.", "§4 C12"),
 "C13": ("other", "unit (dimension) analysis of every store into Resource fields and constructor arguments + dominance-ordered composition phases + commutative-fold recogniser + rational-function normal form of the percent formula",
         "Units, per-pod composition order, commutative totals over full range loops and the percent formula are the documented ones; Quantity arithmetic and float rounding are not decided.", "§4 C13"),
 "C14": ("other", "quantified reading of each filter as returned by its constructor (search loops, slices.Contains*, closures and bound method values as ∃ atoms) compared with the documented predicate by truth-table equivalence; structural atom classification as fallback; full-traversal loop recognisers; lister wiring",
         "Each filter computes the documented predicate for all pod/node shapes at once (not a small-scope enumeration); listers apply exactly the filter.", "§4 C14"),
 "C15": ("other", "value provenance (fresh Get → Update), store census on the fetched object, struct-literal field terms, search-loop exits vs Update reachability, slice-removal idiom recogniser, writer/reader agreement, method-set census of the typed client interfaces (live Get)",
         "Only Spec.Taints of the freshly fetched node changes, by exactly one appended/removed escalator taint with the right key/value/effect; an existing taint is never re-stamped.", "§4 C15"),
 "C16": ("other", "accept-set extraction from the validator's closure calls + propositional/linear entailment of each invariant + sibling cross-check of accessors + gate dominance + struct-tag vs documented-key table agreement",
         "The accept set entails every stated invariant; validation gates every configuration with a fatal exit; json tags = documented keys (one recorded finding: scale_up_cool_down_timeout has no field).", "§4 C16"),
 "C17": ("other", "linear-fact entailment before every write-reaching call + struct-literal field provenance + head/tail chunking-loop recogniser + cache typestate (fresh target)",
         "No AWS write before δ ≥ 1 ∧ TargetSize+δ ≤ MaxSize; one absolute SetDesiredCapacity(TargetSize+δ); fleet request total = min = δ; every acquired id is attached in exactly one call of ≤ 20 ids.", "§4 C17"),
 "C18": ("other", "must-call-before-error-exit on the CFG with the argument checked against the chunking invariant + index-stepping loop recogniser with per-iteration accumulator + error-propagation chain + CFG reachability from may-exit calls to attach / terminate calls",
         "Every error exit of the attach step terminates exactly the not-yet-attached ids, the success exit none; terminate calls carry ≤ 1000 ids of the current batch; the failure reaches ScaleUp, which then takes no lock; no process exit precedes a pending attach / terminate.", "§4 C18"),
 "C19": ("other", "linear pre-check entailment + existential-search recognisers + dominance (cloud before Kubernetes) + CFG reachability from the failure edge (a refused terminate stops the request) + type-preserving error propagation per frame",
         "Terminate only after both minimum pre-checks and the membership test of that node, the matched instance with decrement; not-in-group is returned unchanged by every frame up to log.Fatal.", "§4 C19"),
 "C20": ("other", "panic-site census over the RunOnce-reachable call graph (index/slice bounds by linear entailment, optional-value dereferences by path-condition implication or a reviewed table) + stop census + loop-shape census + allocation-size bounds (Fourier–Motzkin projection onto held quantities, lifted through caller frames) + library-precondition table (metric label arity, Counter.Add sign, ticker interval, mutex pairing)",
         "Every potentially panicking operation on scan paths is guarded or reviewed; the ways a scan can stop the process are enumerated (three recorded findings); every loop is structurally bounded; make() sizes are non-negative and bounded by held quantities; library preconditions hold at every call site. Liveness inside client-go / the AWS SDK is not decided.", "§4 C20"),
 "C09": ("proof", "path-condition implication + interprocedural provenance of action arguments",
         "No action site can receive a node that was cordoned in the scan's snapshot, and capacity/counts come from the untainted list only.", "§4 C09"),
 "C10": ("proof", "path-condition implication + loop-shape recogniser + who-may-call + no-transform / listed-object write census",
         "The grace reaper's append implies ¬protected(n); protected is the documented existential; protection neither breaks the loop nor is consulted elsewhere.", "§4 C10"),
 "C11": ("proof", "call-graph cut (who-may-write) + path-condition implication against the inlined dry-mode predicate",
         "Every external write is behind an action site and every action site / reaper append is guarded by ¬dry(g) on all paths.", "§4 C11"),
}

def main():
    props = [json.loads(l) for l in open(os.path.join(HERE, "properties.jsonl"))]
    checks, na = [], []
    for p in props:
        pid = p["id"]
        if pid in P:
            level, tech, text, ref = P[pid]
            checks.append({
                "property_id": pid,
                "quick_cmd": "./run check -prop %s -tier quick" % pid,
                "thorough_cmd": "./run check -prop %s -tier thorough" % pid,
                "evidence_file": "evidence/%s.json" % pid,
                "replay_cmd_template": "./run explain {path}",
                "engine": "escalint",
                "level_claimed": {"category": level, "text": text, "design_ref": "DESIGN.md " + ref},
                "level_note": TRUST,
                "technique": "static analysis: " + tech,
            })
        else:
            na.append({"property_id": pid, "reason": "rules for this property are designed (DESIGN.md §4) but not yet implemented in escalint; no check is registered until they are"})
    m = {
        "version": 1,
        "setup_cmd": "mkdir -p bin && cd escalint && GOFLAGS=-mod=mod GOPROXY=off GOSUMDB=off GOTOOLCHAIN=local GOWORK=off go build -o ../bin/escalint .",
        "hooks": {"guard": "verif", "enable": "none needed: nothing in /repo is instrumented; the analyser reads the source", "baseline_off_cmd": BASELINE, "source_commits": [], "add_only": True},
        "engines": [{"name": "escalint", "path": "escalint/", "serves_properties": sorted(P.keys()),
                     "kind_free_text": "purpose-built Go static analyser over go/packages + go/ssa: path conditions as propositional formulas decided by truth table, canonical terms, slice provenance, loop-shape recognisers, call-graph cuts, Fourier–Motzkin on linear integer facts"}],
        "checks": checks,
        "not_applicable": na,
        "notes": "Every check loads /repo's current working tree, analyses it without running it, prints VIOLATION lines with a report under reports/, and rewrites evidence/<id>.json. known-findings.txt lists recorded findings (printed as KNOWN-FINDING) and fixed defects (fixed: lines suppress nothing).",
    }
    json.dump(m, open(os.path.join(HERE, "MANIFEST.json"), "w"), indent=1)
    print("checks", len(checks), "not_applicable", len(na))

if __name__ == "__main__":
    main()
